#!/bin/bash
# usage: check.sh <property-id> [quick|thorough]
# Rebuilds the simulator from /repo's current working tree (hooks on) and runs the check.
# exit 0: property held on everything explored; exit 1: VIOLATION line printed; exit 2: infrastructure trouble.
prop="$1"; tier="${2:-${VERIF_TIER:-quick}}"
V="${VERIF_DIR:-/verif}"
cd "$V" || exit 2
if ! out=$("$V/bin/build.sh" 2>&1); then
  echo "BUILD-FAILURE (not a verdict):"; echo "$out" | tail -40; exit 2
fi
ulimit -n 65536 2>/dev/null
exec "$V/bin/simchk" run --property "$prop" --tier "$tier"
