#!/bin/bash
# Builds the simulator from /repo's current working tree with the verif hooks enabled.
set -e
export GOFLAGS=-mod=mod GOPROXY=off GOSUMDB=off GOTOOLCHAIN=local CGO_ENABLED=1
V="${VERIF_DIR:-/verif}"
cd "$V/sim"
{ sed '1s/.*/module verifsim/' /repo/go.mod; echo; echo 'require github.com/rigochain/rigo-go v0.0.0'; echo 'replace github.com/rigochain/rigo-go => /repo'; } > go.mod.new
if ! cmp -s go.mod.new go.mod; then mv go.mod.new go.mod; else rm go.mod.new; fi
cp /repo/go.sum go.sum
go build -tags verif -o "$V/bin/simchk" ./cmd/simchk
