#!/bin/bash
# Builds the simulator from /repo's current working tree with the verif hooks enabled.
set -e
export GOFLAGS=-mod=mod GOPROXY=off GOSUMDB=off GOTOOLCHAIN=local CGO_ENABLED=1
V="${VERIF_DIR:-/verif}"
cd "$V/sim"
R="${VERIF_REPO:-/repo}"   # VERIF_REPO is for the developer's own experiments on scratch worktrees; registered checks use /repo
{ sed '1s/.*/module verifsim/' "$R/go.mod"; echo; echo 'require github.com/rigochain/rigo-go v0.0.0'; echo "replace github.com/rigochain/rigo-go => $R"; } > go.mod.new
if ! cmp -s go.mod.new go.mod; then mv go.mod.new go.mod; else rm go.mod.new; fi
cp "$R/go.sum" go.sum
go build -tags verif -o "$V/bin/simchk" ./cmd/simchk
