#!/bin/bash
# usage: regress_all.sh [parallel] [workers] [cap_s]   - runs every kept seeded change against the quick check of its own
# property (scratch worktree + scratch copy of /verif each, see mutrun2.sh) and writes /verif/seeded/REGRESSION.txt
P=${1:-3}; W=${2:-5}; B=${3:-100}
cd /verif || exit 2
run(){ id=$1; p=$(python3 -c "import json;print(json.load(open('/verif/seeded/$id/meta.json'))['property'])"); WORKERS=$2 BUDGET=$3 /verif/tools/mutrun2.sh /verif/seeded/$id/patch.diff $id $p 2>&1 | grep "^$id " | head -1 | cut -c1-220; }
export -f run
ls seeded | grep -E '^m[0-9]+-C[0-9]{2}[AB]$' | xargs -P $P -I{} bash -c "run {} $W $B" | tee /tmp/regress_all.log
sort /tmp/regress_all.log > /verif/seeded/REGRESSION.txt
echo "detected: $(grep -c 'exit=1' /verif/seeded/REGRESSION.txt) of $(wc -l < /verif/seeded/REGRESSION.txt); missed:"; grep -v 'exit=1' /verif/seeded/REGRESSION.txt
