#!/bin/bash
# usage: mutrun.sh <seeded-id> <prop> [prop...]   applies the seeded patch to /repo, runs the checks, reverts.
id="$1"; shift
cd /repo && git diff --quiet || { echo "/repo dirty"; exit 2; }
git -C /repo apply /verif/seeded/$id/patch.diff || { echo "$id: patch does not apply"; exit 2; }
for p in "$@"; do
  out=$(VERIF_BUDGET_S=${BUDGET:-40} /verif/bin/check.sh $p quick 2>&1); rc=$?
  echo "$id $p exit=$rc $(echo "$out" | grep '^violation:' | head -1 | cut -c1-260)"
  [ $rc = 2 ] && echo "$out" | tail -5
done
git -C /repo checkout -- . && /verif/bin/build.sh
