#!/bin/bash
# usage: confirm_mut.sh <id> <dir-with-patch.diff-demo_test.go-notes.md> <property>
# Confirms in a scratch worktree of /repo HEAD: patch applies, builds (with and without tag), existing tests pass,
# demo fails with the patch and passes without. On success stores /verif/seeded/<id>/.
set -u
id="$1"; src="$2"; prop="$3"
export GOFLAGS=-mod=mod GOPROXY=off GOSUMDB=off GOTOOLCHAIN=local
wt=/tmp/mutconfirm/$id; rm -rf "$wt"; mkdir -p /tmp/mutconfirm
git -C /repo worktree add -q --detach "$wt" HEAD || exit 2
cleanup(){ git -C /repo worktree remove --force "$wt" >/dev/null 2>&1; }
trap cleanup EXIT
cd "$wt"
pkgdir=$(head -3 "$src/demo_test.go" | grep -o '[a-z/]*node[a-z/_]*\|ctrlers/[a-z/]*\|ledger\|types/[a-z/]*' | head -1)
[ -z "$pkgdir" ] && pkgdir=node
pkgdir=${pkgdir%/}
cp "$src/demo_test.go" "$pkgdir/zz_mut_demo_test.go"
export HOME=/tmp/mutconfirm/home-$id TMPDIR=/tmp/mutconfirm/tmp-$id; mkdir -p $HOME $TMPDIR; export GOCACHE=/root/.cache/go-build GOMODCACHE=/root/go/pkg/mod GOPATH=/root/go
res_clean=$(go test -vet=off -count=1 -run 'Mut|mut|Demo|demo|C[0-9][0-9]' ./$pkgdir/ 2>&1 | tail -3)
echo "$res_clean" | grep -q "^ok" && clean_ok=1 || clean_ok=0
if ! git apply "$src/patch.diff" 2>/tmp/mutconfirm/apply-$id.err; then
  if ! git apply --3way "$src/patch.diff" 2>>/tmp/mutconfirm/apply-$id.err; then echo "$id: PATCH DOES NOT APPLY: $(tail -2 /tmp/mutconfirm/apply-$id.err)"; exit 1; fi
fi
git diff -- . ':!*_test.go' > /tmp/mutconfirm/$id.patch
if ! go build ./... 2>/tmp/mutconfirm/build-$id.err || ! go build -tags verif ./... 2>>/tmp/mutconfirm/build-$id.err; then echo "$id: BUILD FAILS"; tail -5 /tmp/mutconfirm/build-$id.err; exit 1; fi
res_mut=$(go test -vet=off -count=1 -run 'Mut|mut|Demo|demo|C[0-9][0-9]' ./$pkgdir/ 2>&1 | tail -3)
echo "$res_mut" | grep -q "^ok" && mut_ok=1 || mut_ok=0
rm -f "$pkgdir/zz_mut_demo_test.go"
suite=$(go test -vet=off -count=1 ./ctrlers/account/ ./ctrlers/stake/ ./ctrlers/types/ ./ctrlers/vm/... ./ledger/... ./node/... ./types/... ./genesis/... 2>&1 | grep -v "^ok\|no test files" | head -5)
for try in 1 2 3; do
  if [ -n "$suite" ] && echo "$suite" | grep -q "ctrlers/account\|TestAcctCtrler_Commit\|ctrler_test.go"; then
    suite=$(go test -vet=off -count=1 ./ctrlers/account/ 2>&1 | grep -v "^ok\|no test files" | head -5)
  fi
done
echo "$id: demo clean_ok=$clean_ok mutated_ok=$mut_ok suite_failures=[$suite]"
if [ $clean_ok = 1 ] && [ $mut_ok = 0 ] && [ -z "$suite" ]; then
  d=/verif/seeded/$id; mkdir -p $d; cp /tmp/mutconfirm/$id.patch $d/patch.diff; cp "$src/demo_test.go" $d/demo_test.go; cp "$src/notes.md" $d/notes.md 2>/dev/null
  echo "{\"id\":\"$id\",\"property\":\"$prop\",\"demo_package_dir\":\"$pkgdir\",\"confirmed\":\"patch applies on /repo HEAD $(git -C /repo rev-parse --short HEAD); go build ./... with and without -tags verif; unit tests of ctrlers/account,stake,types,vm ledger node types genesis pass; demo test passes without and fails with the patch\"}" > $d/meta.json
  echo "$id: STORED"
fi
rm -rf /tmp/mutconfirm/home-$id /tmp/mutconfirm/tmp-$id
