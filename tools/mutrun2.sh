#!/bin/bash
# usage: mutrun2.sh <patch.diff> <label> <prop> [prop...]
# Like mutrun.sh but on a scratch worktree of /repo and a scratch copy of /verif, so that /repo itself and the
# main binary stay untouched (usable while a background sweep runs; several can run in parallel).
patch="$1"; id="$2"; shift 2
R=/tmp/mutrepo/$id; V=/tmp/mutverif/$id
rm -rf "$V"; mkdir -p /tmp/mutrepo /tmp/mutverif "$V"
git -C /repo worktree add -q --detach "$R" HEAD || exit 2
trap 'git -C /repo worktree remove --force "$R" >/dev/null 2>&1; rm -rf "$V"' EXIT
git -C "$R" apply "$patch" || { echo "$id: patch does not apply"; exit 2; }
rsync -a --exclude .git --exclude replays --exclude evidence --exclude seeded /verif/ "$V/"
mkdir -p "$V/replays" "$V/evidence"
for p in "$@"; do
  out=$(VERIF_DIR="$V" VERIF_REPO="$R" VERIF_WORKERS=${WORKERS:-8} VERIF_BUDGET_S=${BUDGET:-60} "$V/bin/check.sh" $p quick 2>&1); rc=$?
  echo "$id $p exit=$rc $(echo "$out" | grep '^violation' | head -1 | cut -c1-260)"
  [ $rc = 2 ] && echo "$out" | tail -5
done
