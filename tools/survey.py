#!/usr/bin/env python3
"""dev helper: run worlds for a property across processes, summarise every oracle hit (all properties)."""
import sys, json, subprocess, collections, concurrent.futures as cf
prop = sys.argv[1]; seed = sys.argv[2] if len(sys.argv) > 2 else "1"; total = int(sys.argv[3]) if len(sys.argv) > 3 else 320
tier = sys.argv[4] if len(sys.argv) > 4 else "quick"
W = 16; per = max(1, total // W)
def run(i):
    out = subprocess.run([__import__("os").environ.get("SIMCHK","/verif/bin/simchk"), "worker", "--property", prop, "--tier", tier, "--seed", seed, "--start", str(i), "--stride", str(W), "--count", str(per)], capture_output=True, text=True)
    res = []
    for l in out.stdout.splitlines():
        try: res.append(json.loads(l))
        except Exception: pass
    if out.returncode != 0: print("WORKER DIED", i, out.stderr[-2000:])
    return res
hits = collections.defaultdict(list); n = 0; nt = 0; probes = collections.Counter(); wall = 0
with cf.ThreadPoolExecutor(W) as ex:
    for res in ex.map(run, range(W)):
        for r in res:
            n += 1; nt += bool(r.get("nonTrivial")); wall += r.get("wallMs", 0)
            for k, v in (r.get("probes") or {}).items(): probes[k] += v
            for v in r.get("violations") or []:
                hits[v["check"] + " " + ",".join(v["props"]) + " " + v.get("shape", "")].append((r["world"], v["height"], v["detail"]))
print(f"worlds={n} nontrivial={nt} avg_wall_ms={wall/max(n,1):.0f}")
for k in sorted(hits, key=lambda k: -len(hits[k])):
    print(f"== {k}  x{len(hits[k])}")
    for w, h, d in hits[k][:2]: print(f"   world {w} h={h}: {d[:700]}")
if "-p" in sys.argv:
    for k in sorted(probes): print(f"   {k}: {probes[k]}")
