// Package signersim checks C20: the file-backed validator signer never double-signs, across
// restarts. One real SFilePV on a tmpfs directory is driven by a seeded sequence of vote and
// proposal signing requests; the fault is a reload of the signer from its key and state files
// between two requests (enumerated per sequence: none, all, every single position, sampled pairs)
// plus the "crash right after release" probe: directly after a signature was handed out the state
// file is read by a fresh instance and must already contain it.
package signersim

import (
	"bytes"
	"crypto/sha256"
	"encoding/json"
	"fmt"
	"os"
	"path/filepath"
	"strings"
	"time"

	rcrypto "github.com/rigochain/rigo-go/types/crypto"
	tmsecp "github.com/tendermint/tendermint/crypto/secp256k1"
	tmjson "github.com/tendermint/tendermint/libs/json"
	tmproto "github.com/tendermint/tendermint/proto/tendermint/types"
	tmtypes "github.com/tendermint/tendermint/types"

	"verifsim/chain"
	"verifsim/core"
)

const chainID = "verif-signer"

type Req struct {
	Kind  string `json:"kind"` // prevote | precommit | proposal
	H     int64  `json:"h"`
	R     int32  `json:"r"`
	Block int    `json:"block"` // 0 nil, 1 A, 2 B
	TsMs  int64  `json:"ts"`    // timestamp offset
	POL   int32  `json:"pol,omitempty"`
	Part  int    `json:"part,omitempty"` // 0: the block's part set header, 1: another parts hash, 2: another number of parts (same block hash)
}

type strace struct {
	Reqs    []Req  `json:"reqs"`
	Reload  []bool `json:"reload"` // reload before request i
	// DiskFail: while request i is served the directory of the state file is gone (every write of the
	// state file fails). The signer may refuse or die (a panic is then a process crash: it is reloaded from
	// disk once the directory is back); a signature it hands out must still be on disk afterwards.
	DiskFail []bool `json:"diskFail,omitempty"`
	KeySeed uint64 `json:"keySeed"`
	Pass    string `json:"pass,omitempty"` // passphrase protecting the key file ("" = plaintext key file)
	// StartPath: reloads go through LoadOrGenSFilePV, the function the node calls at every start (it loads and
	// saves again), instead of the plain LoadSFilePV
	StartPath bool `json:"startPath,omitempty"`
}

func (t *strace) pass() []byte {
	if t.Pass == "" {
		return nil
	}
	return []byte(t.Pass)
}

func step(k string) int8 {
	switch k {
	case "proposal":
		return 1
	case "prevote":
		return 2
	}
	return 3
}

// blockID: part 1 and 2 name the same block hash with another part set header (other parts hash / other number of
// parts): a different BlockID for consensus, so a request for it at an HRS already signed conflicts.
func blockID(b int, part int) tmtypes.BlockID {
	if b == 0 {
		return tmtypes.BlockID{}
	}
	h := sha256.Sum256([]byte{byte(b), 'b'})
	p := sha256.Sum256([]byte{byte(b), 'p'})
	id := tmtypes.BlockID{Hash: h[:], PartSetHeader: tmtypes.PartSetHeader{Total: 1, Hash: p[:]}}
	switch part {
	case 1:
		p2 := sha256.Sum256([]byte{byte(b), 'q'})
		id.PartSetHeader.Hash = p2[:]
	case 2:
		id.PartSetHeader.Total = 2
	}
	return id
}

var t0 = time.Unix(1_700_000_000, 0).UTC()

type hrs struct {
	H int64
	R int32
	S int8
}

func (a hrs) less(b hrs) bool {
	if a.H != b.H {
		return a.H < b.H
	}
	if a.R != b.R {
		return a.R < b.R
	}
	return a.S < b.S
}

type signedRec struct {
	core []byte // sign bytes with the timestamp zeroed
	sig  []byte
	ts   time.Time
}

func voteOf(r Req, ts time.Time, addr []byte) *tmproto.Vote {
	t := tmproto.PrevoteType
	if r.Kind == "precommit" {
		t = tmproto.PrecommitType
	}
	v := &tmtypes.Vote{Type: t, Height: r.H, Round: r.R, BlockID: blockID(r.Block, r.Part), Timestamp: ts, ValidatorAddress: addr, ValidatorIndex: 0}
	return v.ToProto()
}

func proposalOf(r Req, ts time.Time) *tmproto.Proposal {
	p := &tmtypes.Proposal{Type: tmproto.ProposalType, Height: r.H, Round: r.R, POLRound: r.POL - 1, BlockID: blockID(1+r.Block%2, r.Part), Timestamp: ts}
	return p.ToProto()
}

type runner struct {
	dir       string
	keyFile   string
	stateFile string
	pv        *rcrypto.SFilePV
	viol      []*chain.Violation
	probes    *chain.Probes
	log       []string
}

func (r *runner) load(t *strace) *rcrypto.SFilePV {
	if t.StartPath {
		r.probes.Hit("fault.reload.node-start-path")
		return rcrypto.LoadOrGenSFilePV(r.keyFile, r.stateFile, t.pass())
	}
	return rcrypto.LoadSFilePV(r.keyFile, r.stateFile, t.pass())
}

func (r *runner) fail(i int, check, f string, a ...interface{}) {
	r.viol = append(r.viol, &chain.Violation{Check: check, Props: []string{"C20"}, Height: int64(i), Detail: fmt.Sprintf("request %d: ", i) + fmt.Sprintf(f, a...)})
}

func run(t *strace, dir string) ([]*chain.Violation, *chain.Probes, []string) {
	_ = os.RemoveAll(dir)
	_ = os.MkdirAll(dir, 0o755)
	defer os.RemoveAll(dir)
	stDir := filepath.Join(dir, "st")
	_ = os.MkdirAll(stDir, 0o755)
	r := &runner{dir: dir, keyFile: filepath.Join(dir, "key.json"), stateFile: filepath.Join(stDir, "state.json"), probes: chain.NewProbes()}
	kb := sha256.Sum256([]byte(fmt.Sprintf("verif-signer-key-%d", t.KeySeed)))
	priv := tmsecp.PrivKey(kb[:])
	r.pv = rcrypto.NewSFilePV(priv, r.keyFile, r.stateFile)
	r.pv.SaveWith(t.pass())
	pub := priv.PubKey()
	addr := pub.Address()

	var last *hrs
	signed := map[hrs]*signedRec{}
	for i, q := range t.Reqs {
		if i < len(t.Reload) && t.Reload[i] {
			r.pv = r.load(t)
			r.probes.Hit("fault.reload")
			if t.Pass != "" {
				r.probes.Hit("fault.reload.encrypted-key")
			}
		}
		cur := hrs{q.H, q.R, step(q.Kind)}
		ts := t0.Add(time.Duration(q.TsMs) * time.Millisecond)
		diskFail := i < len(t.DiskFail) && t.DiskFail[i]
		crashed := false
		if diskFail {
			if e := os.Rename(stDir, stDir+".away"); e != nil {
				panic(e)
			}
			r.probes.Hit("fault.disk-unwritable")
		}
		var sig []byte
		var outTs time.Time
		var signBytes, coreBytes []byte
		var err error
		func() {
			defer func() {
				if p := recover(); p != nil {
					err = fmt.Errorf("panic: %v", p)
					if diskFail {
						// fail-stop on a disk that cannot be written: the process is gone, nothing was handed out
						crashed = true
						sig = nil
						r.probes.Hit("fault.disk-unwritable.died")
						return
					}
					r.fail(i, "signer.panic", "%v", p)
				}
			}()
			if q.Kind == "proposal" {
				p := proposalOf(q, ts)
				err = r.pv.SignProposal(chainID, p)
				sig, outTs = p.Signature, p.Timestamp
				signBytes = tmtypes.ProposalSignBytes(chainID, p)
				pz := proposalOf(q, time.Time{})
				coreBytes = tmtypes.ProposalSignBytes(chainID, pz)
			} else {
				v := voteOf(q, ts, addr)
				err = r.pv.SignVote(chainID, v)
				sig, outTs = v.Signature, v.Timestamp
				signBytes = tmtypes.VoteSignBytes(chainID, v)
				vz := voteOf(q, time.Time{}, addr)
				coreBytes = tmtypes.VoteSignBytes(chainID, vz)
			}
		}()
		if diskFail {
			if e := os.Rename(stDir+".away", stDir); e != nil {
				panic(e)
			}
			if crashed {
				r.pv = r.load(t)
				r.probes.Hit("fault.reload")
			} else if err == nil && len(sig) > 0 {
				r.probes.Hit("fault.disk-unwritable.answered")
			}
		}
		if len(r.viol) > 0 {
			break
		}
		prev := signed[cur]
		if err != nil || len(sig) == 0 {
			r.log = append(r.log, fmt.Sprintf("%d %v refused", i, cur))
			r.probes.Hit("refused")
			// only the latest signed message must be answerable again (an older HRS is a regression)
			if prev != nil && last != nil && *last == cur && bytes.Equal(prev.core, coreBytes) {
				r.fail(i, "signer.no-resign", "the same message (up to timestamp) as the one already signed at %v was refused: %v", cur, err)
				break
			}
			if prev == nil && (last == nil || last.less(cur)) {
				// a strictly newer HRS: refusal is not a safety violation, but it is counted
				r.probes.Hit("refused.fresh")
			}
			continue
		}
		r.log = append(r.log, fmt.Sprintf("%d %v signed %x", i, cur, sig[:4]))
		if !pub.VerifySignature(signBytes, sig) {
			r.fail(i, "signer.badsig", "released signature does not verify for %v", cur)
			break
		}
		if prev != nil {
			r.probes.Hit("resign.same-hrs")
			if !bytes.Equal(prev.core, coreBytes) {
				r.fail(i, "signer.double-sign", "a second, different message was signed at %v", cur)
				break
			}
			if !bytes.Equal(prev.sig, sig) || !prev.ts.Equal(outTs) {
				r.fail(i, "signer.resign-differs", "re-signing at %v returned a different signature/timestamp than the original", cur)
				break
			}
		} else {
			if last != nil && !last.less(cur) {
				if *last == cur {
					r.fail(i, "signer.double-sign", "signed at %v although a signature for that HRS was already released (lost record)", cur)
				} else {
					r.fail(i, "signer.regression", "signed at %v after having signed at %v", cur, *last)
				}
				break
			}
			c := cur
			last = &c
			signed[cur] = &signedRec{core: coreBytes, sig: append([]byte(nil), sig...), ts: outTs}
			r.probes.Hit("signed.fresh")
			// crash right after release: a fresh process must already see this signature on disk
			var ls rcrypto.SFilePVLastSignState
			if t.Pass == "" {
				ls = rcrypto.LoadSFilePV(r.keyFile, r.stateFile, nil).LastSignState
			} else {
				// the key derivation is slow on purpose; the state file alone decides this probe
				ls = readState(r.stateFile)
			}
			if ls.Height != cur.H || ls.Round != cur.R || ls.Step != cur.S || !bytes.Equal(ls.Signature, sig) || !bytes.Equal(ls.SignBytes, signBytes) {
				r.fail(i, "signer.not-durable", "signature for %v was released but the state file holds %d/%d/%d", cur, ls.Height, ls.Round, ls.Step)
				break
			}
		}
	}
	return r.viol, r.probes, r.log
}

func readState(path string) rcrypto.SFilePVLastSignState {
	var ls rcrypto.SFilePVLastSignState
	b, err := os.ReadFile(path)
	if err == nil {
		_ = tmjson.Unmarshal(b, &ls)
	}
	return ls
}

func generate(rng *core.Rand, tier string) *strace {
	n := rng.Range(6, 24)
	if tier == "thorough" {
		n = rng.Range(10, 40)
	}
	t := &strace{KeySeed: rng.Uint64() % 1000}
	cur := hrs{1, 0, 1}
	kinds := []string{"proposal", "prevote", "precommit"}
	for i := 0; i < n; i++ {
		q := Req{TsMs: int64(i * 100)}
		switch rng.Pick([]float64{5, 2.5, 1.5, 1.5, 1}) {
		case 0: // advance
			switch rng.Intn(4) {
			case 0:
				cur.H++
				cur.R, cur.S = 0, int8(rng.Range(1, 3))
			case 1:
				cur.R++
				cur.S = int8(rng.Range(1, 3))
			default:
				if cur.S < 3 {
					cur.S++
				} else {
					cur.R++
					cur.S = 1
				}
			}
			q.H, q.R, q.Kind = cur.H, cur.R, kinds[cur.S-1]
			q.Block = rng.Intn(3)
		case 1: // repeat the previous request exactly or with another timestamp
			if len(t.Reqs) > 0 {
				q = t.Reqs[len(t.Reqs)-1]
				if rng.Chance(0.6) {
					q.TsMs += int64(rng.Range(1, 5000))
				}
			} else {
				q.H, q.R, q.Kind = 1, 0, "prevote"
			}
		case 2: // conflict at the same HRS: another block
			if len(t.Reqs) > 0 {
				q = t.Reqs[len(t.Reqs)-1]
				nb := (q.Block + 1 + rng.Intn(2)) % 3
				if i%3 == 0 && (q.Block != 0 || q.Kind == "proposal") {
					// the same block hash under another part set header (no extra draw: the other requests of the
					// world are what they were before this variant existed)
					q.Part = (q.Part + 1 + (i/3)%2) % 3
				} else {
					q.Block = nb
				}
				if q.Kind == "proposal" && rng.Chance(0.5) {
					q.POL = (q.POL + 1) % 3
				}
			} else {
				q.H, q.R, q.Kind = 1, 0, "precommit"
			}
		case 3: // regression
			q.H = int64(rng.Range(1, int(cur.H)))
			q.R = int32(rng.Intn(int(cur.R) + 1))
			q.Kind = kinds[rng.Intn(3)]
			q.Block = rng.Intn(3)
		case 4: // an older request again
			if len(t.Reqs) > 0 {
				q = t.Reqs[rng.Intn(len(t.Reqs))]
			} else {
				q.H, q.R, q.Kind = 1, 0, "prevote"
			}
		}
		if q.H < 1 {
			q.H = 1
		}
		t.Reqs = append(t.Reqs, q)
	}
	t.Reload = make([]bool, len(t.Reqs))
	t.StartPath = rng.Chance(0.5)
	if rng.Intn(60) == 0 {
		t.Pass = "verif-pass"
		if len(t.Reqs) > 8 {
			t.Reqs = t.Reqs[:8]
			t.Reload = t.Reload[:8]
		}
	}
	return t
}

func scratch(n int) string {
	return filepath.Join("/dev/shm", fmt.Sprintf("verif-%d", os.Getpid()), fmt.Sprintf("signer%d", n))
}

func result(tr *chain.Trace, t *strace, viol []*chain.Violation, probes *chain.Probes, log []string, variants int, start time.Time) *chain.WorldResult {
	res := &chain.WorldResult{Seed: tr.Seed, World: tr.World, Property: "C20", Blocks: variants, TxTotal: len(t.Reqs) * variants, TxOK: probes.C["signed.fresh"],
		Replicas: 1, Violations: viol, Probes: probes.C, WallMs: time.Since(start).Milliseconds()}
	var ks []string
	for _, q := range t.Reqs {
		ks = append(ks, fmt.Sprintf("%s/%d/%d/%d.%d", q.Kind[:3], q.H, q.R, q.Block, q.Part))
	}
	res.Shape = fmt.Sprintf("%x", core.Derive(0, strings.Join(ks, ","), 0).Uint64())
	res.LogHash = fmt.Sprintf("%x", core.Derive(0, strings.Join(log, "\n"), uint64(len(viol))).Uint64())
	res.NonTrivial = probes.C["fault.reload"] >= 1 && probes.C["resign.same-hrs"]+probes.C["refused"] >= 1 && probes.C["signed.fresh"] >= 2
	res.Sample = fmt.Sprintf("seed=%d world=%d requests=[%s] reload-variants=%d", tr.Seed, tr.World, strings.Join(ks, " "), variants)
	if len(viol) > 0 {
		res.Trace = tr
	}
	return res
}

// Explore: one seeded request sequence, executed once per reload variant (fault enumeration).
func Explore(tier string, seed uint64, world int) *chain.WorldResult {
	start := time.Now()
	rng := core.Derive(seed, "signer", uint64(world))
	t := generate(rng, tier)
	n := len(t.Reqs)
	var variants [][]bool
	none := make([]bool, n)
	all := make([]bool, n)
	for i := range all {
		all[i] = true
	}
	variants = append(variants, none, all)
	for i := 1; i < n; i++ { // every single reload position
		v := make([]bool, n)
		v[i] = true
		variants = append(variants, v)
	}
	pairs := 8
	if tier == "thorough" {
		pairs = 60
	}
	if t.Pass != "" {
		// every reload of an encrypted key file costs a full key derivation: fewer variants
		variants = variants[:2]
		pairs = 1
	}
	for k := 0; k < pairs && n > 2; k++ {
		v := make([]bool, n)
		v[rng.Range(1, n-1)] = true
		v[rng.Range(1, n-1)] = true
		variants = append(variants, v)
	}
	// disk-failure variants: the state directory is unwritable during one request (every position of short
	// sequences, sampled positions otherwise), alone and followed by a reload
	type variant struct{ reload, disk []bool }
	var vs []variant
	for _, v := range variants {
		vs = append(vs, variant{v, nil})
	}
	if t.Pass == "" {
		for i := 1; i < n; i++ {
			if n > 12 && !rng.Chance(12.0/float64(n)) {
				continue
			}
			d := make([]bool, n)
			d[i] = true
			vs = append(vs, variant{none, d})
			if i+1 < n {
				rl := make([]bool, n)
				rl[i+1] = true
				vs = append(vs, variant{rl, d})
			}
		}
	}
	total := chain.NewProbes()
	var log []string
	tr := &chain.Trace{Version: 1, Engine: "signer-sim", Seed: seed, World: world}
	for vi, vv := range vs {
		t.Reload, t.DiskFail = vv.reload, vv.disk
		viol, probes, lg := run(t, scratch(world))
		for k, c := range probes.C {
			total.Add(k, c)
		}
		if vi == 0 {
			log = lg
		}
		if len(viol) > 0 {
			t = shrink(t, viol[0].Check, world)
			viol, probes, lg = run(t, scratch(world))
			b, _ := json.Marshal(t)
			tr.Note = string(b)
			if len(viol) > 0 {
				tr.Expect = viol[0].Check
			}
			return result(tr, t, viol, probes, lg, vi+1, start)
		}
	}
	b, _ := json.Marshal(t)
	tr.Note = string(b)
	return result(tr, t, nil, total, log, len(vs), start)
}

func shrink(t *strace, check string, world int) *strace {
	best := t
	for i := len(best.Reqs) - 1; i >= 0; i-- {
		c := &strace{KeySeed: best.KeySeed, Pass: best.Pass, StartPath: best.StartPath}
		c.Reqs = append(append([]Req(nil), best.Reqs[:i]...), best.Reqs[i+1:]...)
		c.Reload = append(append([]bool(nil), best.Reload[:i]...), best.Reload[i+1:]...)
		if len(best.DiskFail) == len(best.Reqs) {
			c.DiskFail = append(append([]bool(nil), best.DiskFail[:i]...), best.DiskFail[i+1:]...)
		}
		v, _, _ := run(c, scratch(world))
		if len(v) > 0 && v[0].Check == check {
			best = c
		}
	}
	for i := range best.Reload {
		if best.Reload[i] {
			c := &strace{KeySeed: best.KeySeed, Pass: best.Pass, StartPath: best.StartPath, Reqs: best.Reqs, Reload: append([]bool(nil), best.Reload...), DiskFail: best.DiskFail}
			c.Reload[i] = false
			v, _, _ := run(c, scratch(world))
			if len(v) > 0 && v[0].Check == check {
				best = c
			}
		}
	}
	return best
}

func Replay(tr *chain.Trace) *chain.WorldResult {
	start := time.Now()
	t := &strace{}
	if err := json.Unmarshal([]byte(tr.Note), t); err != nil {
		return &chain.WorldResult{Violations: []*chain.Violation{{Check: "harness.trace", Props: []string{"HARNESS"}, Detail: err.Error()}}}
	}
	viol, probes, log := run(t, scratch(0))
	return result(tr, t, viol, probes, log, 1, start)
}
