package signersim

import "verifsim/chain"

func Explore(tier string, seed uint64, world int) *chain.WorldResult { return &chain.WorldResult{} }
func Replay(tr *chain.Trace) *chain.WorldResult               { return &chain.WorldResult{} }

