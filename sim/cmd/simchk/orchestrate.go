package main

import (
	"bufio"
	"bytes"
	"encoding/json"
	"fmt"
	"os"
	"os/exec"
	"path/filepath"
	"runtime"
	"sort"
	"strings"
	"sync"
	"sync/atomic"
	"time"

	"verifsim/chain"
)

var verifDir = func() string {
	if v := os.Getenv("VERIF_DIR"); v != "" {
		return v
	}
	return "/verif"
}()

type knownEntry struct {
	Property string `json:"property"`
	Status   string `json:"status"` // known | fixed
	Check    string `json:"check"`  // oracle check id that fires
	Shape    string `json:"shape"`  // failing shape (prefix match on Violation.Shape)
	What     string `json:"what"`
	Witness  string `json:"witness,omitempty"` // trace file relative to /verif
	Commit   string `json:"commit,omitempty"`
}

func loadKnown() []knownEntry {
	b, err := os.ReadFile(filepath.Join(verifDir, "known_findings.json"))
	if err != nil {
		return nil
	}
	var f struct {
		Findings []knownEntry `json:"findings"`
	}
	if json.Unmarshal(b, &f) != nil {
		return nil
	}
	return f.Findings
}

func matchKnown(known []knownEntry, prop string, v *chain.Violation) *knownEntry {
	for i := range known {
		k := &known[i]
		if k.Status != "known" || k.Shape == "" || v.Shape == "" {
			continue
		}
		if !v.HasProp(k.Property) {
			continue
		}
		if shapeMatches(k.Shape, v.Shape) && checkMatches(k.Check, v.Check) {
			return k
		}
	}
	return nil
}

// shapeMatches: a known entry may list several shape prefixes separated by '|' (the places one defect shows at).
func shapeMatches(list, shape string) bool {
	for _, p := range strings.Split(list, "|") {
		if p != "" && strings.HasPrefix(shape, p) {
			return true
		}
	}
	return false
}

// checkMatches: a known entry may list several check ids separated by '|' (symptoms of one defect).
func checkMatches(list, check string) bool {
	if list == "" {
		return true
	}
	for _, c := range strings.Split(list, "|") {
		if c == check {
			return true
		}
	}
	return false
}

type aggregate struct {
	mu         sync.Mutex
	worlds     int
	nontrivial map[string]bool // distinct shapes of non-trivial worlds
	blocks     int
	txs, txok  int
	simMs      int64
	wallMs     int64
	probes     map[string]int
	samples    []string
	others     map[string]int // other-property check hits
	relevant   []*chain.WorldResult
	knownHits  map[string]int
	harness    []string
	timedOut   int
	replicas   int
	forks      int
	seedsSeen  map[uint64]bool
	traced     []*chain.WorldResult // clean worlds whose trace was kept (for the cross-process arm of C01)
	crossRuns  int
}

func newAgg() *aggregate {
	return &aggregate{nontrivial: map[string]bool{}, probes: map[string]int{}, others: map[string]int{}, knownHits: map[string]int{}, seedsSeen: map[uint64]bool{}}
}

func (a *aggregate) add(prop string, known []knownEntry, r *chain.WorldResult) {
	a.mu.Lock()
	defer a.mu.Unlock()
	a.worlds++
	a.blocks += r.Blocks
	a.txs += r.TxTotal
	a.txok += r.TxOK
	a.simMs += r.SimTimeMs
	a.wallMs += r.WallMs
	a.replicas += r.Replicas
	a.forks += r.Forks
	a.seedsSeen[r.Seed] = true
	if r.TimedOut {
		a.timedOut++
	}
	for k, v := range r.Probes {
		a.probes[k] += v
	}
	if r.NonTrivial {
		a.nontrivial[r.Shape] = true
		if len(a.samples) < 3 && r.Sample != "" {
			a.samples = append(a.samples, r.Sample)
		}
	}
	if r.Trace != nil && len(r.Violations) == 0 && len(a.traced) < 64 {
		a.traced = append(a.traced, r)
	}
	rel := false
	for _, v := range r.Violations {
		if v.HasProp("HARNESS") {
			a.harness = append(a.harness, v.String())
			continue
		}
		if k := matchKnown(known, prop, v); k != nil {
			a.knownHits[k.Property+" "+k.What]++
			continue
		}
		if v.HasProp(prop) {
			rel = true
		} else {
			a.others[v.Check+"("+strings.Join(v.Props, ",")+")"]++
		}
	}
	if rel {
		a.relevant = append(a.relevant, r)
	}
}

func selfExe() string {
	p, err := os.Executable()
	if err != nil {
		return os.Args[0]
	}
	return p
}

// budgetFor: wall-clock cap of the exploration. The amount of exploration is fixed by worldsFor (the same world
// indexes on every machine, so that what a check explores does not depend on the machine's speed or load); the
// cap only bounds the time on a machine that is much slower than the one the counts were calibrated on.
func budgetFor(tier string) time.Duration {
	if s := envInt("VERIF_BUDGET_S", 0); s > 0 {
		return time.Duration(s) * time.Second
	}
	if tier == "thorough" {
		return 2400 * time.Second
	}
	return 180 * time.Second
}

// worldsFor: how many worlds (indexes 0..N-1 of the seed) a check explores. Calibrated so that quick takes
// about 45 s and thorough about 10 minutes on 16 idle cores.
func worldsFor(prop, tier string) int {
	if n := envInt("VERIF_WORLDS", 0); n > 0 {
		return int(n)
	}
	q := 1400
	switch prop {
	case "C04", "C07", "C10", "C14", "C19", "C01":
		q = 1000
	case "C08":
		q = 220
	case "C18":
		q = 24000
	case "C20":
		q = 1500
	}
	if tier == "thorough" {
		return q * 12
	}
	return q
}

func workersN() int {
	n := runtime.NumCPU()
	if v := envInt("VERIF_WORKERS", 0); v > 0 {
		n = int(v)
	}
	if n > 16 {
		n = 16
	}
	if n < 1 {
		n = 1
	}
	return n
}

// runCheck is the body of a registered check.
func runCheck(prop, tier string, seed uint64) int {
	defer os.RemoveAll(filepath.Join(os.TempDir(), fmt.Sprintf("verif-cand-%d", os.Getpid())))
	t0 := time.Now()
	known := loadKnown()
	agg := newAgg()
	budget := budgetFor(tier)
	deadline := t0.Add(budget)
	nw := workersN()
	nWorlds := worldsFor(prop, tier)
	fmt.Printf("VERIF_SEED=%d property=%s tier=%s engine=%s workers=%d worlds=%d time-cap=%s\n", seed, prop, tier, engineOf(prop), nw, nWorlds, budget)

	// 1. witnesses of known findings and regression inputs of fixed ones
	knownLines, code := replayWitnesses(prop, known, agg)
	if code != 0 {
		return code
	}

	// 2. seeded exploration
	var wg sync.WaitGroup
	stop := make(chan struct{})
	var stopOnce sync.Once
	var nextIdx int64 // worlds are handed out in chunks of consecutive indexes
	chunk := 40
	if prop == "C08" {
		// a recovery that dies in the handshake (the listed mid-commit finding, a dozen per enumerated block) leaves
		// store handles of that instance behind; short-lived worker processes keep that from adding up
		chunk = 4
	}
	if nWorlds/(nw*4) < chunk {
		chunk = nWorlds/(nw*4) + 1
	}
	for wi := 0; wi < nw; wi++ {
		wg.Add(1)
		go func(wi int) {
			defer wg.Done()
			for time.Now().Before(deadline) {
				select {
				case <-stop:
					return
				default:
				}
				next := int(atomic.AddInt64(&nextIdx, int64(chunk))) - chunk
				if next >= nWorlds {
					return
				}
				cnt := chunk
				if next+cnt > nWorlds {
					cnt = nWorlds - next
				}
				cmd := exec.Command(selfExe(), "worker", "--property", prop, "--tier", tier, "--seed", fmt.Sprint(seed),
					"--start", fmt.Sprint(next), "--stride", "1", "--count", fmt.Sprint(cnt), "--deadline", fmt.Sprint(deadline.Unix()))
				cmd.Env = append(os.Environ(), "GOMAXPROCS=2")
				out, err := cmd.StdoutPipe()
				if err != nil {
					agg.mu.Lock()
					agg.harness = append(agg.harness, "pipe: "+err.Error())
					agg.mu.Unlock()
					return
				}
				var stderr bytes.Buffer
				cmd.Stderr = &stderr
				if err := cmd.Start(); err != nil {
					agg.mu.Lock()
					agg.harness = append(agg.harness, "start: "+err.Error())
					agg.mu.Unlock()
					return
				}
				sc := bufio.NewScanner(out)
				sc.Buffer(make([]byte, 1<<20), 1<<28)
				n := 0
				for sc.Scan() {
					r := &chain.WorldResult{}
					if json.Unmarshal(sc.Bytes(), r) != nil {
						continue
					}
					n++
					agg.add(prop, known, r)
					agg.mu.Lock()
					found := len(agg.relevant) > 0 || len(agg.harness) > 0
					agg.mu.Unlock()
					if found {
						stopOnce.Do(func() { close(stop) })
					}
				}
				werr := cmd.Wait()
				if werr != nil {
					agg.mu.Lock()
					agg.harness = append(agg.harness, fmt.Sprintf("worker %d died (%v) after %d worlds from index %d: %s", wi, werr, n, next, lastLines(stderr.String(), 12)))
					agg.mu.Unlock()
					stopOnce.Do(func() { close(stop) })
					return
				}
				if n == 0 {
					return
				}
			}
		}(wi)
	}
	wg.Wait()

	// C01, cross-process arm: the same trace executed in another process with another scheduler
	// width, time zone and home directory must produce the identical event log (every response of every
	// replica). A difference cannot be pinned by a seed; the replay tool re-executes to show it.
	if prop == "C01" && len(agg.harness) == 0 && len(agg.relevant) == 0 {
		n := 6
		if tier == "thorough" {
			n = 40
		}
		for i, r := range agg.traced {
			if i >= n {
				break
			}
			tr := r.Trace.Clone()
			alt := execInChildEnv(tr, "GOMAXPROCS=1", "TZ=Pacific/Kiritimati", "HOME=/tmp/verif-althome", "LANG=ko_KR.UTF-8")
			agg.crossRuns++
			if alt == nil {
				agg.harness = append(agg.harness, "cross-process replay failed to run")
				break
			}
			if alt.LogHash != r.LogHash {
				v := &chain.Violation{Check: "replica.cross-process", Props: []string{"C01"}, Detail: fmt.Sprintf("seed %d world %d: the event log differs between two processes fed the same trace (%s vs %s)", r.Seed, r.World, r.LogHash, alt.LogHash)}
				r.Violations = append(r.Violations, v)
				agg.relevant = append(agg.relevant, r)
				break
			}
		}
		agg.probes["cross-process.replays"] = agg.crossRuns
	}

	wall := time.Since(t0).Seconds()
	violations := 0
	var replayPath string
	var vio *chain.Violation
	if len(agg.harness) == 0 && len(agg.relevant) > 0 {
		violations = 1
		sort.Slice(agg.relevant, func(i, j int) bool { return agg.relevant[i].World < agg.relevant[j].World })
		replayPath, vio = shrinkAndSave(prop, known, agg.relevant[0])
	}
	seenLine := map[string]bool{}
	for _, l := range knownLines {
		seenLine[l] = true
	}
	var hitKeys []string
	for k := range agg.knownHits {
		hitKeys = append(hitKeys, k)
	}
	sort.Strings(hitKeys)
	for _, k := range hitKeys {
		parts := strings.SplitN(k, " ", 2)
		l := fmt.Sprintf("KNOWN-FINDING: property=%s %s", parts[0], parts[1])
		if parts[0] == prop && !seenLine[l] {
			seenLine[l] = true
			knownLines = append(knownLines, l)
		}
	}
	writeEvidence(prop, tier, seed, agg, time.Since(t0).Seconds(), violations, knownLines)
	for _, l := range knownLines {
		fmt.Println(l)
	}
	fmt.Printf("explored worlds=%d nontrivial-distinct=%d blocks=%d txs=%d(ok %d) sim-time=%.0fs wall=%.1fs other-property-hits=%d\n",
		agg.worlds, len(agg.nontrivial), agg.blocks, agg.txs, agg.txok, float64(agg.simMs)/1000, wall, len(agg.others))
	if len(agg.harness) > 0 {
		for _, h := range agg.harness {
			fmt.Println("HARNESS-FAILURE:", h)
		}
		return 2
	}
	if violations > 0 {
		fmt.Printf("violation: %s\n", vio.String())
		fmt.Printf("VIOLATION property=%s replay=%s\n", prop, replayPath)
		return 1
	}
	if agg.worlds == 0 {
		fmt.Println("HARNESS-FAILURE: no world was executed")
		return 2
	}
	fmt.Printf("OK property=%s\n", prop)
	return 0
}

func lastLines(s string, n int) string {
	ls := strings.Split(strings.TrimSpace(s), "\n")
	if len(ls) > n {
		ls = ls[len(ls)-n:]
	}
	return strings.Join(ls, " / ")
}

// replayWitnesses: known findings must still fail as recorded (KNOWN-FINDING line);
// fixed findings' witnesses are regression inputs and must pass.
func replayWitnesses(prop string, known []knownEntry, agg *aggregate) ([]string, int) {
	var lines []string
	for _, k := range known {
		if k.Property != prop || k.Witness == "" {
			continue
		}
		tr, err := chain.LoadTrace(filepath.Join(verifDir, k.Witness))
		if err != nil {
			fmt.Println("HARNESS-FAILURE: cannot load witness", k.Witness, err)
			return nil, 2
		}
		res := execInChild(tr)
		if res == nil {
			fmt.Println("HARNESS-FAILURE: witness run failed", k.Witness)
			return nil, 2
		}
		hit := false
		var other *chain.Violation
		for _, v := range res.Violations {
			if checkMatches(k.Check, v.Check) && (k.Shape == "" || shapeMatches(k.Shape, v.Shape)) {
				hit = true
			} else if v.HasProp(prop) && other == nil {
				other = v
			}
		}
		switch k.Status {
		case "known":
			if hit {
				lines = append(lines, fmt.Sprintf("KNOWN-FINDING: property=%s %s", prop, k.What))
			} else if other != nil {
				// a different symptom on the witness of a known finding is a new violation
				p := filepath.Join(verifDir, "replays", fmt.Sprintf("%s-witness-%s.json", prop, filepath.Base(k.Witness)))
				tr.Expect = other.Check
				_ = tr.Save(p)
				fmt.Printf("violation: %s\n", other.String())
				fmt.Printf("VIOLATION property=%s replay=%s\n", prop, p)
				return lines, 1
			} else {
				lines = append(lines, fmt.Sprintf("NOTE: listed finding no longer reproduces on its witness (%s): %s", k.Witness, k.What))
			}
		case "fixed":
			if hit || other != nil {
				v := other
				for _, x := range res.Violations {
					if checkMatches(k.Check, x.Check) {
						v = x
					}
				}
				p := filepath.Join(verifDir, "replays", fmt.Sprintf("%s-regression-%s", prop, filepath.Base(k.Witness)))
				tr.Expect = v.Check
				_ = tr.Save(p)
				fmt.Printf("violation (fixed finding is back): %s\n", v.String())
				fmt.Printf("VIOLATION property=%s replay=%s\n", prop, p)
				return lines, 1
			}
		}
	}
	return lines, 0
}

var childSeq int
var childMu sync.Mutex

// execInChild executes a trace in a fresh OS process.
func execInChild(tr *chain.Trace) *chain.WorldResult { return execInChildEnv(tr, "GOMAXPROCS=2") }

// execInChildEnv executes a trace in a fresh OS process with extra environment.
func execInChildEnv(tr *chain.Trace, env ...string) *chain.WorldResult {
	childMu.Lock()
	childSeq++
	n := childSeq
	childMu.Unlock()
	dir := filepath.Join(os.TempDir(), fmt.Sprintf("verif-cand-%d", os.Getpid()))
	_ = os.MkdirAll(dir, 0o755)
	p := filepath.Join(dir, fmt.Sprintf("c%d.json", n))
	if err := tr.Save(p); err != nil {
		return nil
	}
	defer os.Remove(p)
	cmd := exec.Command(selfExe(), "exec", "--file", p)
	cmd.Env = append(os.Environ(), env...)
	out, err := cmd.Output()
	if err != nil {
		return nil
	}
	for _, l := range strings.Split(string(out), "\n") {
		if strings.HasPrefix(l, "{") {
			r := &chain.WorldResult{}
			if json.Unmarshal([]byte(l), r) == nil {
				return r
			}
		}
	}
	return nil
}

func firstRelevant(prop string, known []knownEntry, r *chain.WorldResult) *chain.Violation {
	for _, v := range r.Violations {
		if v.HasProp(prop) && !v.HasProp("HARNESS") && matchKnown(known, prop, v) == nil {
			return v
		}
	}
	return nil
}

func sameViolation(want *chain.Violation, r *chain.WorldResult) *chain.Violation {
	if r == nil {
		return nil
	}
	for _, v := range r.Violations {
		if v.Check == want.Check && v.Shape == want.Shape {
			return v
		}
	}
	return nil
}

// shrinkAndSave minimises the failing trace (delta debugging on blocks, then on the contents of
// blocks), replays the result in a fresh process and writes the replay file.
func shrinkAndSave(prop string, known []knownEntry, r *chain.WorldResult) (string, *chain.Violation) {
	want := firstRelevant(prop, known, r)
	_ = os.MkdirAll(filepath.Join(verifDir, "replays"), 0o755)
	path := filepath.Join(verifDir, "replays", fmt.Sprintf("%s-seed%d-w%d.json", prop, r.Seed, r.World))
	tr := r.Trace
	if tr == nil {
		return "(trace missing)", want
	}
	if tr.Engine != "chain-sim" || want.Check == "replica.cross-process" {
		tr.Expect = want.Check
		_ = tr.Save(path)
		return path, want
	}
	best := tr.Clone()
	// the exploring pass and a replay of its trace must agree, else keep the original
	if sameViolation(want, execInChild(best)) == nil {
		best.Expect = want.Check
		best.Note = "replay of the recorded trace did not reproduce the violation in a fresh process; unminimised trace kept"
		_ = best.Save(path)
		return path, want
	}
	if want.Height > 0 && int(want.Height) < len(best.Blocks) {
		c := best.Clone()
		c.Blocks = c.Blocks[:want.Height]
		if sameViolation(want, execInChild(c)) != nil {
			best = c
		}
	}
	execs := 0
	t0 := time.Now()
	try := func(c *chain.Trace) bool {
		if execs >= 200 || time.Since(t0) > 120*time.Second {
			return false
		}
		execs++
		return sameViolation(want, execInChild(c)) != nil
	}
	// drop whole blocks (not the last one)
	for i := len(best.Blocks) - 2; i >= 0; i-- {
		c := best.Clone()
		c.Blocks = append(c.Blocks[:i:i], c.Blocks[i+1:]...)
		if try(c) {
			best = c
		}
	}
	// strip block contents
	for i := len(best.Blocks) - 1; i >= 0; i-- {
		b := best.Blocks[i]
		if len(b.Sides) > 0 {
			c := best.Clone()
			c.Blocks[i].Sides = nil
			if try(c) {
				best = c
			}
		}
		if len(best.Blocks[i].Faults) > 1 {
			for j := len(best.Blocks[i].Faults) - 1; j >= 0; j-- {
				c := best.Clone()
				f := c.Blocks[i].Faults
				c.Blocks[i].Faults = append(f[:j:j], f[j+1:]...)
				if try(c) {
					best = c
				}
			}
		} else if len(best.Blocks[i].Faults) == 1 {
			c := best.Clone()
			c.Blocks[i].Faults = nil
			if try(c) {
				best = c
			}
		}
		if len(best.Blocks[i].Evidence) > 0 {
			c := best.Clone()
			c.Blocks[i].Evidence = nil
			if try(c) {
				best = c
			}
		}
		if len(best.Blocks[i].Absent) > 0 {
			c := best.Clone()
			c.Blocks[i].Absent = nil
			if try(c) {
				best = c
			}
		}
		for j := len(best.Blocks[i].Txs) - 1; j >= 0; j-- {
			c := best.Clone()
			t := c.Blocks[i].Txs
			c.Blocks[i].Txs = append(t[:j:j], t[j+1:]...)
			if try(c) {
				best = c
			}
		}
		for j := len(best.Blocks[i].Sides) - 1; j >= 0; j-- {
			c := best.Clone()
			s := c.Blocks[i].Sides
			c.Blocks[i].Sides = append(s[:j:j], s[j+1:]...)
			if try(c) {
				best = c
			}
		}
	}
	// fewer followers
	for best.Cfg.Followers > 0 {
		c := best.Clone()
		c.Cfg.Followers--
		if try(c) {
			best = c
		} else {
			break
		}
	}
	final := execInChild(best)
	v := sameViolation(want, final)
	if v == nil {
		best = tr.Clone()
		best.Note = "minimised trace did not replay identically; unminimised trace kept"
		v = want
	} else {
		best.Note = fmt.Sprintf("minimised with %d re-executions; %s", execs, v.String())
	}
	best.Expect = want.Check
	_ = best.Save(path)
	return path, v
}

// ---- evidence ------------------------------------------------------------------------------------

var levelOf = map[string]string{"C08": "fault_enumeration", "C20": "fault_enumeration"}

func ruleFor(prop string) string {
	rules := map[string]string{
		"C01": "one world = seeded genesis + block history driven through leader and 1-3 independently started followers; non-trivial: >=2 replicas, >=6 blocks, >=3 successful txs",
		"C02": "non-trivial: >=6 blocks, >=3 successful txs incl. at least one staking/unstaking/withdraw/contract tx",
		"C03": "non-trivial: at least one tampered tx that would have been executable without the signature check (nonce, funds and price fit)",
		"C04": "non-trivial: >=5 successful txs and >=1 rejected tx in a world with duplicates/replays/nonce permutations",
		"C05": "non-trivial: >=3 failed and >=3 successful txs over >=6 blocks",
		"C06": "non-trivial: quiet leader + noisy follower, >=5 CheckTx calls injected at yield points",
		"C07": "non-trivial: at least one stop/restart of a follower at a block boundary with the chain continuing afterwards",
		"C08": "non-trivial: at least 5 crash points (directory snapshot + store clones at that instant) reopened through the real handshake",
		"C09": "non-trivial: >=5 hostile inputs delivered (garbage in block, CheckTx, Query)",
		"C10": "non-trivial: the engine's validator set changed at least once",
		"C11": "non-trivial: >=2 staking and >=1 unstaking successes",
		"C12": "non-trivial: >=1 successful unstaking and >=1 matured refund",
		"C13": "non-trivial: rewards issued in >=3 blocks and a withdrawal or a missed signature occurred",
		"C14": "non-trivial: evidence against a known validator or a jailing occurred",
		"C15": "non-trivial: >=1 proposal and >=1 vote succeeded",
		"C16": "non-trivial: >=3 successful and >=1 rejected tx",
		"C17": "non-trivial: >=1 deployment and >=2 calls/transfers to contracts judged against the reference EVM",
		"C18": "non-trivial: the operation sequence contains a commit and a delete or reopen",
		"C19": "non-trivial: >=5 queries judged against the model snapshot of the requested height",
		"C20": "non-trivial: the request sequence contains a repeated or regressing HRS and at least one reload",
	}
	return rules[prop] + "; distinct = distinct shape signature (hash of the sequence of tx kind x outcome, side-call kind x yield point, fault kind)"
}

func writeEvidence(prop, tier string, seed uint64, a *aggregate, wall float64, violations int, knownLines []string) {
	level := levelOf[prop]
	if level == "" {
		level = "exploration"
	}
	faults := map[string]int{}
	probes := map[string]int{}
	for k, v := range a.probes {
		if strings.HasPrefix(k, "fault.") || strings.HasPrefix(k, "side.check") && !strings.Contains(k, "@") || k == "side.query" ||
			strings.HasPrefix(k, "tamper.") || k == "garbage.in-block" || k == "missed.signature" {
			faults[k] = v
		} else {
			probes[k] = v
		}
	}
	samples := []interface{}{}
	for _, s := range a.samples {
		samples = append(samples, s)
	}
	if len(samples) == 0 {
		samples = append(samples, "(no non-trivial world in this run)")
	}
	perHour := 0.0
	if wall > 0 {
		perHour = float64(a.worlds) / wall * 3600
	}
	var others []string
	for k, v := range a.others {
		others = append(others, fmt.Sprintf("%s x%d", k, v))
	}
	sort.Strings(others)
	cov := map[string]interface{}{
		"evaluations":          a.worlds,
		"distinct_nontrivial":  len(a.nontrivial),
		"rule":                 ruleFor(prop),
		"samples":              samples,
		"runs_per_hour":        int(perHour),
		"blocks_committed":     a.blocks,
		"transactions":         a.txs,
		"transactions_ok":      a.txok,
		"simulated_time_s":     float64(a.simMs) / 1000,
		"replicas_total":       a.replicas,
		"crash_forks_reopened": a.forks,
		"faults_fired":         faults,
		"probes":               probes,
		"worlds_timed_out":     a.timedOut,
		"other_property_hits":  others,
		"known_findings_seen":  knownLines,
		"components": map[string]string{
			"real": "node.RigoApp + all controllers, ledger, IAVL, goleveldb on tmpfs, go-ethereum EVM, rigo local ABCI client/AppConns, Tendermint state.BlockExecutor.ApplyBlock, state.Store, store.BlockStore (MemDB), consensus.Handshaker, ValidatorSet/VoteSet/commit verification, evidence->ABCI conversion",
			"stub": "consensus rounds/WAL/p2p/mempool reactor (seeded block producer and simulated mempool/query clients), evidence pool (EmptyEvidencePool), rpc/core environment (block store view only)",
		},
		"exhaustive": false,
	}
	if engineOf(prop) != "chain-sim" {
		cov["components"] = map[string]string{"real": componentReal(prop), "stub": "none (single library object driven directly)"}
	}
	ev := map[string]interface{}{
		"property_id": prop,
		"tier":        tier,
		"seed":        seed,
		"level":       level,
		"coverage":    cov,
		"assumptions": assumptionsFor(prop),
		"wall_s":      wall,
		"violations":  violations,
	}
	b, _ := json.MarshalIndent(ev, "", " ")
	_ = os.MkdirAll(filepath.Join(verifDir, "evidence"), 0o755)
	_ = os.WriteFile(filepath.Join(verifDir, "evidence", prop+".json"), b, 0o644)
}

func componentReal(prop string) string {
	if prop == "C18" {
		return "ledger.FinalityLedger over IAVL + goleveldb on tmpfs"
	}
	return "types/crypto.SFilePV with its key and state files on tmpfs; Tendermint vote/proposal sign-bytes"
}

func assumptionsFor(prop string) []string {
	as := []string{
		"sampling, not enumeration: a clean run is evidence over the explored seeds only",
		"Tendermint v0.34.24 block execution/handshake code and go-ethereum v1.10.23 are trusted judges",
		"genesis total supply <= 10^12 coins; governance documents adopted by a 2/3 majority contain sane values",
	}
	switch prop {
	case "C17":
		as = append(as, "chain-specific EVM environment (chain config, gas pool 25M, difficulty 1, zero block hashes, base fee 0) taken from the code base as input of 'standard EVM semantics'")
	case "C13":
		as = append(as, "blocks 1-3 carry no stake changes (validator power of heights <= 3 derives from genesis); otherwise claims of heights <= 4 are adopted")
	case "C14", "C10":
		as = append(as, "window edge of the signing window and boundary ties of the validator selection are lenient (either reading accepted)")
	}
	return as
}

func selftest(n int, seed uint64) int {
	fmt.Println("selftest: determinism of exploration vs replay across processes and GOMAXPROCS")
	bad := 0
	props := []string{"C01", "C06", "C07", "C08", "C14", "C17", "C19"}
	for i := 0; i < n; i++ {
		prop := props[i%len(props)]
		tr := chain.NewExploreTrace(prop, "quick", seed, i)
		dir := filepath.Join(os.TempDir(), fmt.Sprintf("verif-selftest-%d", os.Getpid()))
		_ = os.MkdirAll(dir, 0o755)
		// explore in a child, then replay the produced trace twice under different GOMAXPROCS
		cmd := exec.Command(selfExe(), "worker", "--property", prop, "--seed", fmt.Sprint(seed), "--start", fmt.Sprint(i), "--count", "1")
		cmd.Env = append(os.Environ(), "GOMAXPROCS=1", "VERIF_KEEPTRACE=1")
		out, err := cmd.Output()
		if err != nil {
			fmt.Println("selftest: worker failed", err)
			return 2
		}
		r0 := &chain.WorldResult{}
		if json.Unmarshal(bytes.TrimSpace(out), r0) != nil || r0.Trace == nil {
			// traces are kept every 10th world only; re-run in-process shape: use exec path
			_ = tr
			continue
		}
		hashes := []string{r0.LogHash}
		for _, gmp := range []string{"1", "4", "16"} {
			p := filepath.Join(dir, "t.json")
			_ = r0.Trace.Save(p)
			c := exec.Command(selfExe(), "exec", "--file", p)
			c.Env = append(os.Environ(), "GOMAXPROCS="+gmp, "TZ=Asia/Seoul")
			o, err := c.Output()
			if err != nil {
				fmt.Println("selftest: exec failed", err)
				return 2
			}
			rr := &chain.WorldResult{}
			for _, l := range strings.Split(string(o), "\n") {
				if strings.HasPrefix(l, "{") {
					_ = json.Unmarshal([]byte(l), rr)
				}
			}
			hashes = append(hashes, rr.LogHash)
		}
		same := true
		for _, h := range hashes {
			if h != hashes[0] {
				same = false
			}
		}
		if !same {
			bad++
			fmt.Printf("selftest: DIVERGED prop=%s world=%d hashes=%v\n", prop, i, hashes)
		}
		_ = os.RemoveAll(dir)
	}
	if bad > 0 {
		fmt.Printf("selftest: %d of %d worlds diverged\n", bad, n)
		return 1
	}
	fmt.Printf("selftest: %d worlds, explore and 3 replays each byte-identical event logs\n", n)
	return 0
}
