// simchk: deterministic simulation checks for rigo-go.
//
//	simchk run    --property C02 [--tier quick|thorough]    orchestrates worker processes, shrinks, writes evidence
//	simchk worker --property C02 --tier quick --seed S --start i --stride n --count k --deadline unix
//	simchk exec   --file trace.json [--log]                 executes one trace (no PRNG), prints the result as JSON
//	simchk replay --file replay.json                        like exec, exit 1 if the recorded violation reproduces
//	simchk selftest [--seeds n]                             determinism self-test
package main

import (
	"encoding/json"
	"flag"
	"fmt"
	"os"
	"strconv"
	"time"

	"verifsim/chain"
	"verifsim/ledgersim"
	"verifsim/signersim"
)

func envInt(name string, def int64) int64 {
	if v := os.Getenv(name); v != "" {
		if n, err := strconv.ParseInt(v, 10, 64); err == nil {
			return n
		}
	}
	return def
}

func main() {
	if len(os.Args) < 2 {
		fmt.Fprintln(os.Stderr, "usage: simchk run|worker|exec|replay|selftest ...")
		os.Exit(2)
	}
	cmd := os.Args[1]
	fs := flag.NewFlagSet(cmd, flag.ExitOnError)
	prop := fs.String("property", "", "property id")
	tier := fs.String("tier", os.Getenv("VERIF_TIER"), "quick|thorough")
	seed := fs.Uint64("seed", uint64(envInt("VERIF_SEED", 1)), "seed")
	start := fs.Int("start", 0, "first world index")
	stride := fs.Int("stride", 1, "world index stride")
	count := fs.Int("count", 50, "max worlds in this process")
	deadline := fs.Int64("deadline", 0, "unix seconds after which no new world starts")
	file := fs.String("file", "", "trace file")
	keepLog := fs.Bool("log", false, "include the event log")
	seeds := fs.Int("seeds", 30, "selftest: number of worlds")
	_ = fs.Parse(os.Args[2:])
	if *tier == "" {
		*tier = "quick"
	}
	switch cmd {
	case "run":
		os.Exit(runCheck(*prop, *tier, *seed))
	case "worker":
		worker(*prop, *tier, *seed, *start, *stride, *count, *deadline)
	case "exec", "replay":
		os.Exit(execFile(*file, cmd == "replay", *keepLog))
	case "one":
		tr := chain.NewExploreTrace(*prop, *tier, *seed, *start)
		res := chain.RunTrace(tr, true, chain.WorldDir(*start), chain.RunOpts{KeepLog: true, KeepTrace: true})
		for _, l := range res.Log {
			fmt.Println(l)
		}
		for _, v := range res.Violations {
			fmt.Println("VIOLATION:", v.String(), "shape="+v.Shape)
		}
		if *file != "" {
			_ = res.Trace.Save(*file)
		}
		fmt.Println(res.Sample)
		_ = os.RemoveAll(fmt.Sprintf("/dev/shm/verif-%d", os.Getpid()))
	case "selftest":
		os.Exit(selftest(*seeds, *seed))
	default:
		fmt.Fprintln(os.Stderr, "unknown command", cmd)
		os.Exit(2)
	}
}

func engineOf(prop string) string {
	switch prop {
	case "C18":
		return "ledger-sim"
	case "C20":
		return "signer-sim"
	}
	return "chain-sim"
}

func worker(prop, tier string, seed uint64, start, stride, count int, deadline int64) {
	enc := json.NewEncoder(os.Stdout)
	for k := 0; k < count; k++ {
		if deadline > 0 && time.Now().Unix() >= deadline {
			break
		}
		idx := start + k*stride
		var res *chain.WorldResult
		switch engineOf(prop) {
		case "ledger-sim":
			res = ledgersim.Explore(tier, seed, idx)
		case "signer-sim":
			res = signersim.Explore(tier, seed, idx)
		default:
			tr := chain.NewExploreTrace(prop, tier, seed, idx)
			res = chain.RunTrace(tr, true, chain.WorldDir(idx), chain.RunOpts{MaxWall: 120 * time.Second, KeepTrace: k%10 == 0})
		}
		_ = enc.Encode(res)
	}
	_ = os.RemoveAll(fmt.Sprintf("/dev/shm/verif-%d", os.Getpid()))
}

func runTraceFile(tr *chain.Trace, keepLog bool) *chain.WorldResult {
	switch tr.Engine {
	case "ledger-sim":
		return ledgersim.Replay(tr)
	case "signer-sim":
		return signersim.Replay(tr)
	}
	return chain.RunTrace(tr, false, chain.WorldDir(0), chain.RunOpts{KeepLog: keepLog, MaxWall: 300 * time.Second})
}

func execFile(path string, replay bool, keepLog bool) int {
	tr, err := chain.LoadTrace(path)
	if err != nil {
		fmt.Fprintln(os.Stderr, "cannot load trace:", err)
		return 2
	}
	res := runTraceFile(tr, keepLog)
	_ = os.RemoveAll(fmt.Sprintf("/dev/shm/verif-%d", os.Getpid()))
	res.Trace = nil
	b, _ := json.Marshal(res)
	fmt.Println(string(b))
	if replay && tr.Expect == "replica.cross-process" {
		// a dependence on something node-local cannot be pinned by a seed: re-execute in several processes
		// with different environments and report how often the event logs differ
		diff := 0
		const n = 16
		for i := 0; i < n; i++ {
			alt := execInChildEnv(tr, fmt.Sprintf("GOMAXPROCS=%d", 1+i%8), "TZ=Pacific/Kiritimati", "HOME=/tmp/verif-althome")
			if alt != nil && alt.LogHash != res.LogHash {
				diff++
			}
		}
		fmt.Printf("cross-process: %d of %d re-executions produced a different event log\n", diff, n)
		if diff > 0 {
			fmt.Println("REPRODUCED check=replica.cross-process")
			return 1
		}
		fmt.Println("NOT-REPRODUCED")
		return 0
	}
	if replay {
		for _, v := range res.Violations {
			if tr.Expect == "" || v.Check == tr.Expect {
				fmt.Printf("REPRODUCED check=%s %s\n", v.Check, v.Detail)
				return 1
			}
		}
		fmt.Println("NOT-REPRODUCED")
		return 0
	}
	return 0
}
