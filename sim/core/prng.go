// Package core holds the pieces shared by all simulation engines: the seeded PRNG,
// violation records, evidence writing and the multi-process runner.
package core

import (
	"crypto/sha256"
	"encoding/binary"
)

// Rand is a xoshiro256** generator seeded through splitmix64. It is the only source of
// randomness in the simulator: one VERIF_SEED value (plus a world index) decides every choice.
type Rand struct {
	s [4]uint64
}

func splitmix(x *uint64) uint64 {
	*x += 0x9e3779b97f4a7c15
	z := *x
	z = (z ^ (z >> 30)) * 0xbf58476d1ce4e5b9
	z = (z ^ (z >> 27)) * 0x94d049bb133111eb
	return z ^ (z >> 31)
}

func NewRand(seed uint64) *Rand {
	r := &Rand{}
	x := seed
	for i := range r.s {
		r.s[i] = splitmix(&x)
	}
	return r
}

// Derive returns an independent stream for (seed, label, n).
func Derive(seed uint64, label string, n uint64) *Rand {
	h := sha256.New()
	var b [16]byte
	binary.BigEndian.PutUint64(b[:8], seed)
	binary.BigEndian.PutUint64(b[8:], n)
	h.Write(b[:])
	h.Write([]byte(label))
	sum := h.Sum(nil)
	return NewRand(binary.BigEndian.Uint64(sum[:8]))
}

func rotl(x uint64, k uint) uint64 { return (x << k) | (x >> (64 - k)) }

func (r *Rand) Uint64() uint64 {
	s := &r.s
	res := rotl(s[1]*5, 7) * 9
	t := s[1] << 17
	s[2] ^= s[0]
	s[3] ^= s[1]
	s[1] ^= s[2]
	s[0] ^= s[3]
	s[2] ^= t
	s[3] = rotl(s[3], 45)
	return res
}

// Intn returns a value in [0,n). n must be > 0.
func (r *Rand) Intn(n int) int {
	if n <= 0 {
		return 0
	}
	return int(r.Uint64() % uint64(n))
}

// Range returns a value in [lo,hi].
func (r *Rand) Range(lo, hi int) int {
	if hi <= lo {
		return lo
	}
	return lo + r.Intn(hi-lo+1)
}

func (r *Rand) Float() float64 { return float64(r.Uint64()>>11) / float64(1<<53) }

// Chance returns true with probability p.
func (r *Rand) Chance(p float64) bool { return r.Float() < p }

func (r *Rand) Bytes(n int) []byte {
	b := make([]byte, n)
	for i := 0; i < n; i += 8 {
		v := r.Uint64()
		for j := 0; j < 8 && i+j < n; j++ {
			b[i+j] = byte(v >> (8 * uint(j)))
		}
	}
	return b
}

// Pick returns a random index weighted by w (all >= 0, sum > 0).
func (r *Rand) Pick(w []float64) int {
	sum := 0.0
	for _, x := range w {
		sum += x
	}
	if sum <= 0 {
		return r.Intn(len(w))
	}
	t := r.Float() * sum
	for i, x := range w {
		if t < x {
			return i
		}
		t -= x
	}
	return len(w) - 1
}

// Geometric returns a count with the given mean (0 allowed).
func (r *Rand) Geometric(mean float64) int {
	if mean <= 0 {
		return 0
	}
	p := 1.0 / (1.0 + mean)
	n := 0
	for !r.Chance(p) && n < 64 {
		n++
	}
	return n
}

func (r *Rand) Perm(n int) []int {
	p := make([]int, n)
	for i := range p {
		p[i] = i
	}
	for i := n - 1; i > 0; i-- {
		j := r.Intn(i + 1)
		p[i], p[j] = p[j], p[i]
	}
	return p
}
