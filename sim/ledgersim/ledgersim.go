// Package ledgersim checks C18: a FinalityLedger behaves as a key-value map with a consensus
// overlay and a mempool overlay on top of immutable committed versions. One real ledger on a
// tmpfs directory is driven by three simulated clients whose operations are interleaved by the
// PRNG; every return value is compared with a small map model. Faults: close+reopen, crash
// (directory copy between two operations, reopened), a second instance fed the same consensus
// operations (root hash / version equality).
package ledgersim

import (
	"bytes"
	"encoding/binary"
	"encoding/json"
	"fmt"
	"io"
	"os"
	"path/filepath"
	"sort"
	"strings"
	"time"

	"github.com/rigochain/rigo-go/ledger"
	"github.com/rigochain/rigo-go/types/xerrors"

	"verifsim/chain"
	"verifsim/core"
)

type item struct {
	K ledger.LedgerKey
	V uint64
}

func (i *item) Key() ledger.LedgerKey { return i.K }
func (i *item) Encode() ([]byte, xerrors.XError) {
	b := make([]byte, 40)
	copy(b, i.K[:])
	binary.BigEndian.PutUint64(b[32:], i.V)
	return b, nil
}
func (i *item) Decode(b []byte) xerrors.XError {
	if len(b) != 40 {
		return xerrors.NewOrdinary("bad item")
	}
	copy(i.K[:], b[:32])
	i.V = binary.BigEndian.Uint64(b[32:])
	return nil
}

// Op is one step of a ledger trace.
type Op struct {
	Op  string `json:"op"`
	Key int    `json:"key,omitempty"`
	Val uint64 `json:"val,omitempty"`
	Ver int64  `json:"ver,omitempty"`
}

type ltrace struct {
	Keys int  `json:"keys"`
	Ops  []Op `json:"ops"`
}

// key 0 is the all-zero key (the governance parameters live under it in the application)
func key(i int) ledger.LedgerKey {
	var k ledger.LedgerKey
	if i == 0 {
		return k
	}
	k[0] = byte(i + 1)
	k[31] = byte(0xA0 + i)
	return k
}

func keyIndex(k ledger.LedgerKey) int {
	if k[0] == 0 {
		return 0
	}
	return int(k[0]) - 1
}

type ov struct {
	put  bool
	tomb bool // with put: a pending delete lies under the pending put (re-creation)
	val  uint64
}

type model struct {
	vers       []map[int]uint64 // vers[v] = content committed as version v (vers[0] empty)
	cons       map[int]ov
	mem        map[int]ov
	consOps    map[int]int // number of pending consensus set/del operations per key since the last commit
	memOps     map[int]int
	memBaseUnknown map[int]bool // keys the consensus side deleted in this interval: what lies under a mempool put is not fixed
	memUnknown map[int]bool // keys whose mempool view is not fixed by the statement until the next commit
}

func newModel() *model {
	return &model{vers: []map[int]uint64{{}}, cons: map[int]ov{}, mem: map[int]ov{}, memUnknown: map[int]bool{}, memBaseUnknown: map[int]bool{}, consOps: map[int]int{}, memOps: map[int]int{}}
}
func (m *model) latest() map[int]uint64 { return m.vers[len(m.vers)-1] }
func (m *model) view(o map[int]ov, k int) (uint64, bool) {
	if e, ok := o[k]; ok {
		if e.put {
			return e.val, true
		}
		if e.tomb {
			return 0, false
		}
	}
	v, ok := m.latest()[k]
	return v, ok
}

type handle struct {
	ver int64
	il  ledger.ILedger[*item]
}

type runner struct {
	handles []handle
	dir    string
	L      *ledger.FinalityLedger[*item]
	twin   *ledger.FinalityLedger[*item]
	m      *model
	viol   []*chain.Violation
	probes *chain.Probes
	nval   uint64
	step   int
	log    []string
}

func open(dir string) (*ledger.FinalityLedger[*item], error) {
	l, xerr := ledger.NewFinalityLedger[*item]("c18", dir, 16, func() *item { return &item{} })
	if xerr != nil {
		return nil, xerr
	}
	return l, nil
}

func (r *runner) fail(check, f string, a ...interface{}) {
	r.viol = append(r.viol, &chain.Violation{Check: check, Props: []string{"C18"}, Height: int64(r.step), Detail: fmt.Sprintf("op %d: ", r.step) + fmt.Sprintf(f, a...)})
}

// copyDir takes a stable copy of a directory whose store is still open: the store may compact (create,
// rename, delete files) in the background while the copy runs, so the copy is repeated until the
// listing (name, size, modification time) is the same before and after it.
func copyDir(src, dst string) error {
	list := func() (string, error) {
		var sb strings.Builder
		err := filepath.Walk(src, func(p string, info os.FileInfo, err error) error {
			if err != nil {
				return err
			}
			fmt.Fprintf(&sb, "%s|%d|%d\n", p, info.Size(), info.ModTime().UnixNano())
			return nil
		})
		return sb.String(), err
	}
	var last error
	for try := 0; try < 50; try++ {
		l1, err := list()
		if err != nil {
			last = err
			time.Sleep(2 * time.Millisecond)
			continue
		}
		_ = os.RemoveAll(dst)
		if err := copyDirOnce(src, dst); err != nil {
			last = err
			time.Sleep(2 * time.Millisecond)
			continue
		}
		l2, err := list()
		if err == nil && l1 == l2 {
			return nil
		}
		last = fmt.Errorf("directory kept changing during the copy")
		time.Sleep(2 * time.Millisecond)
	}
	return fmt.Errorf("harness: no stable copy of %s: %v", src, last)
}

func copyDirOnce(src, dst string) error {
	return filepath.Walk(src, func(p string, info os.FileInfo, err error) error {
		if err != nil {
			return err
		}
		rel, _ := filepath.Rel(src, p)
		if info.IsDir() {
			return os.MkdirAll(filepath.Join(dst, rel), 0o755)
		}
		in, err := os.Open(p)
		if err != nil {
			return err
		}
		defer in.Close()
		out, err := os.Create(filepath.Join(dst, rel))
		if err != nil {
			return err
		}
		defer out.Close()
		_, err = io.Copy(out, in)
		return err
	})
}

func isNotFound(x xerrors.XError) bool { return x != nil && x.Code() == xerrors.ErrCodeNotFoundResult }

func (r *runner) expectGet(what string, k int, got *item, xerr xerrors.XError, want uint64, ok bool) {
	if ok {
		if xerr != nil || got == nil {
			r.fail("ledger.read", "%s(key %d): error %v, model has value %d", what, k, xerr, want)
		} else if got.V != want {
			r.fail("ledger.read", "%s(key %d) = %d, model has %d", what, k, got.V, want)
		}
	} else if xerr == nil {
		v := uint64(0)
		if got != nil {
			v = got.V
		}
		r.fail("ledger.read", "%s(key %d) = %d, model has no such key", what, k, v)
	} else if !isNotFound(xerr) {
		r.fail("ledger.read", "%s(key %d): unexpected error %v", what, k, xerr)
	}
}

func (r *runner) apply(op Op) (err error) {
	defer func() {
		if p := recover(); p != nil {
			r.fail("ledger.panic", "%s: panic %v", op.Op, p)
		}
	}()
	m := r.m
	k := op.Key
	K := key(k)
	switch op.Op {
	case "setf":
		if op.Val == 0 {
			// restore what the last commit holds (written as a new object, as a controller that builds its record
			// afresh would); a key the commit does not hold gets a value of its own
			if cv, ok := m.vers[len(m.vers)-1][k]; ok {
				op.Val = cv
				r.probes.Hit("set-back-to-committed")
			} else {
				op.Val = 1_000_000 + uint64(r.step)
			}
		}
		_ = r.L.SetFinality(&item{K: K, V: op.Val})
		if r.twin != nil {
			_ = r.twin.SetFinality(&item{K: K, V: op.Val})
		}
		under := m.cons[k].tomb
		if under {
			r.probes.Hit("recreate-after-delete")
		}
		m.cons[k] = ov{put: true, val: op.Val, tomb: under}
		m.consOps[k]++
	case "getf":
		want, ok := m.view(m.cons, k)
		got, xerr := r.L.GetFinality(K)
		r.expectGet("GetFinality", k, got, xerr, want, ok)
	case "delf":
		want, ok := m.view(m.cons, k)
		got, xerr := r.L.DelFinality(K)
		if r.twin != nil {
			_, _ = r.twin.DelFinality(K)
		}
		r.expectGet("DelFinality", k, got, xerr, want, ok)
		// deliberate leniency: the code propagates a consensus delete into the mempool view of that
		// key (also when the key is not found); the statement does not fix the mempool view of a key
		// the consensus side is deleting, so it is not compared until the next commit or mempool write
		m.memUnknown[k] = true
		m.memBaseUnknown[k] = true
		if ok {
			m.consOps[k]++
			m.cons[k] = ov{tomb: true}
			r.probes.Hit("delete")
		}
	case "cancelsetf":
		// generated only directly after a pending put without pending tombstone
		// shapes with one meaning: cancel the only pending put, or cancel the put of a delete+re-create
		// (the pending delete then remains)
		if e, ok := m.cons[k]; ok && e.put && (m.consOps[k] == 1 || (m.consOps[k] == 2 && e.tomb)) {
			_ = r.L.CancelSetFinality(K)
			m.consOps[k]--
			if r.twin != nil {
				_ = r.twin.CancelSetFinality(K)
			}
			if e.tomb {
				m.cons[k] = ov{tomb: true} // the pending delete under the cancelled put remains
			} else {
				delete(m.cons, k)
			}
			r.probes.Hit("cancel-set")
		}
	case "canceldelf":
		if e, ok := m.cons[k]; ok && e.tomb && !e.put && m.consOps[k] == 1 {
			_ = r.L.CancelDelFinality(K)
			m.consOps[k] = 0
			if r.twin != nil {
				_ = r.twin.CancelDelFinality(K)
			}
			delete(m.cons, k)
			r.probes.Hit("cancel-del")
		}
	case "set":
		_ = r.L.Set(&item{K: K, V: op.Val})
		m.mem[k] = ov{put: true, val: op.Val, tomb: m.mem[k].tomb}
		m.memOps[k]++
		delete(m.memUnknown, k)
	case "get":
		if m.memUnknown[k] {
			_, _ = r.L.Get(K)
			return nil
		}
		want, ok := m.view(m.mem, k)
		got, xerr := r.L.Get(K)
		r.expectGet("Get", k, got, xerr, want, ok)
	case "del":
		if m.memUnknown[k] {
			_, _ = r.L.Del(K)
			return nil
		}
		want, ok := m.view(m.mem, k)
		got, xerr := r.L.Del(K)
		r.expectGet("Del", k, got, xerr, want, ok)
		if ok {
			m.mem[k] = ov{tomb: true}
			m.memOps[k]++
		}
	case "cancelset":
		if e, ok := m.mem[k]; ok && e.put && !m.memUnknown[k] && (m.memOps[k] == 1 || (m.memOps[k] == 2 && e.tomb)) {
			_ = r.L.CancelSet(K)
			m.memOps[k]--
			if m.memBaseUnknown[k] {
				m.memUnknown[k] = true
			}
			if e.tomb {
				m.mem[k] = ov{tomb: true}
			} else {
				delete(m.mem, k)
			}
		}
	case "canceldel":
		if e, ok := m.mem[k]; ok && e.tomb && !e.put && !m.memUnknown[k] && m.memOps[k] == 1 {
			_ = r.L.CancelDel(K)
			m.memOps[k] = 0
			if m.memBaseUnknown[k] {
				m.memUnknown[k] = true
			}
			delete(m.mem, k)
		}
	case "read":
		want, ok := m.latest()[k]
		got, xerr := r.L.Read(K)
		r.expectGet("Read", k, got, xerr, want, ok)
	case "iter":
		got := map[int]uint64{}
		xerr := r.L.IterateReadAllFinalityItems(func(it *item) xerrors.XError {
			got[keyIndex(it.K)] = it.V
			return nil
		})
		if xerr != nil {
			r.fail("ledger.iter", "iterate: %v", xerr)
		} else if !sameMap(got, m.latest()) {
			r.fail("ledger.iter", "iteration over the committed items gives %v, model %v", got, m.latest())
		}
	case "commit":
		next := map[int]uint64{}
		for kk, v := range m.latest() {
			next[kk] = v
		}
		for kk, e := range m.cons {
			if e.put {
				next[kk] = e.val
			} else if e.tomb {
				delete(next, kk)
			}
		}
		hash, ver, xerr := r.L.Commit()
		if xerr != nil {
			r.fail("ledger.commit", "commit error %v", xerr)
			return nil
		}
		if ver != int64(len(m.vers)) {
			r.fail("ledger.version", "commit returned version %d, expected %d", ver, len(m.vers))
		}
		if r.twin != nil {
			h2, v2, x2 := r.twin.Commit()
			if x2 != nil || v2 != ver || !bytes.Equal(hash, h2) {
				r.fail("ledger.twin", "two instances fed the same consensus operations: version %d/%d root %x/%x err %v", ver, v2, hash, h2, x2)
			}
		}
		m.vers = append(m.vers, next)
		m.cons = map[int]ov{}
		m.mem = map[int]ov{}
		m.memUnknown = map[int]bool{}
		m.memBaseUnknown = map[int]bool{}
		m.consOps = map[int]int{}
		m.memOps = map[int]int{}
		r.probes.Hit("commit")
		r.log = append(r.log, fmt.Sprintf("commit v%d %x", ver, hash))
	case "hist":
		v := op.Ver
		il, xerr := r.L.ImmutableLedgerAt(v, 0)
		if v > int64(len(m.vers)-1) {
			if xerr == nil {
				r.fail("ledger.future", "ImmutableLedgerAt(%d) succeeds, latest version is %d", v, len(m.vers)-1)
			}
			r.probes.Hit("hist.future")
			return nil
		}
		if v < 1 {
			return nil
		}
		if xerr != nil {
			r.fail("ledger.hist", "ImmutableLedgerAt(%d): %v", v, xerr)
			return nil
		}
		want, ok := m.vers[v][k]
		got, x2 := il.Read(K)
		r.expectGet(fmt.Sprintf("ImmutableLedgerAt(%d).Read", v), k, got, x2, want, ok)
		// Get goes through the handle's own (fresh) overlay first: whatever is pending in the live ledger's
		// overlays must not show in a historical handle (block execution reads stakes of height-4 this way)
		got, x2 = il.Get(K)
		r.expectGet(fmt.Sprintf("ImmutableLedgerAt(%d).Get", v), k, got, x2, want, ok)
		all := map[int]uint64{}
		_ = il.IterateReadAllItems(func(it *item) xerrors.XError {
			all[keyIndex(it.K)] = it.V
			return nil
		})
		if !sameMap(all, m.vers[v]) {
			r.fail("ledger.hist", "version %d iterates to %v, committed content was %v", v, all, m.vers[v])
		}
		if v < int64(len(m.vers)-1) {
			r.probes.Hit("hist.past")
		}
	case "hopen":
		// a historical handle that stays in use while the ledger moves on
		v := op.Ver
		if v < 1 || v > int64(len(m.vers)-1) {
			return nil
		}
		il, xerr := r.L.ImmutableLedgerAt(v, 0)
		if xerr != nil {
			r.fail("ledger.hist", "ImmutableLedgerAt(%d): %v", v, xerr)
			return nil
		}
		r.handles = append(r.handles, handle{v, il})
		if len(r.handles) > 4 {
			r.handles = r.handles[1:]
		}
	case "hread":
		if len(r.handles) == 0 {
			return nil
		}
		hd := r.handles[int(op.Val)%len(r.handles)]
		want, ok := m.vers[hd.ver][k]
		got, x2 := hd.il.Read(K)
		deletedLater := false
		if ok {
			for v := hd.ver + 1; v < int64(len(m.vers)); v++ {
				if _, still := m.vers[v][k]; !still {
					deletedLater = true
				}
			}
		}
		if deletedLater {
			// observation S13 (IAVL fast index): a handle opened at the then-latest version answers "absent" for a
			// key that a later version deleted. Not judged; no code path keeps a handle beyond one ABCI call.
			r.probes.Hit("hist.kept-handle-deleted-later")
			return nil
		}
		r.expectGet(fmt.Sprintf("kept handle of version %d (latest %d).Read", hd.ver, len(m.vers)-1), k, got, x2, want, ok)
		// Iteration over a kept handle is not judged: IAVL's fast index makes a tree opened at the then-latest
		// version iterate the live index after further commits (observation S13). The code base never keeps a
		// historical handle beyond one ABCI call; point reads through a kept handle must still be right.
		if hd.ver < int64(len(m.vers)-1) {
			r.probes.Hit("hist.kept-handle-after-commit")
		}
	case "reopen", "crash":
		r.handles = nil
		if op.Op == "reopen" {
			_ = r.L.Close()
			r.probes.Hit("fault.reopen")
		} else {
			// crash: what a dying process leaves = the directory as it is now
			nd := r.dir + fmt.Sprintf("-crash%d", r.step)
			if err := copyDir(r.dir, nd); err != nil {
				return err
			}
			_ = r.L.Close()
			_ = os.RemoveAll(r.dir)
			r.dir = nd
			r.probes.Hit("fault.crash")
		}
		l, err := open(r.dir)
		if err != nil {
			r.fail("ledger.reopen", "cannot reopen: %v", err)
			return err
		}
		r.L = l
		if l.Version() != int64(len(m.vers)-1) {
			r.fail("ledger.reopen", "reopened at version %d, committed %d", l.Version(), len(m.vers)-1)
		}
		// pending overlays are volatile
		m.cons = map[int]ov{}
		m.mem = map[int]ov{}
		m.memUnknown = map[int]bool{}
		m.memBaseUnknown = map[int]bool{}
		m.consOps = map[int]int{}
		m.memOps = map[int]int{}
		if r.twin != nil {
			_ = r.twin.Close()
			r.twin = nil
		}
	}
	return nil
}

func sameMap(a, b map[int]uint64) bool {
	if len(a) != len(b) {
		return false
	}
	for k, v := range a {
		if w, ok := b[k]; !ok || w != v {
			return false
		}
	}
	return true
}

func generate(rng *core.Rand, tier string) *ltrace {
	t := &ltrace{Keys: rng.Range(2, 8)}
	n := rng.Range(10, 40)
	if tier == "thorough" {
		n = rng.Range(20, 80)
	}
	val := uint64(0)
	pend := map[int]string{} // last pending consensus op per key
	mpend := map[int]string{}
	ver := int64(0)
	for i := 0; i < n; i++ {
		k := rng.Intn(t.Keys)
		var op Op
		switch rng.Pick([]float64{4, 3, 2.5, 0.7, 0.7, 2, 2, 1, 0.4, 0.4, 1.5, 1, 3, 2, 0.5, 0.4, 1, 1.5}) {
		case 0:
			val++
			op = Op{Op: "setf", Key: k, Val: val}
			if pend[k] == "set" && rng.Chance(0.2) {
				op.Val = 0 // back to the value the last commit holds for this key (a net "no change")
			}
			pend[k] = "set"
		case 1:
			op = Op{Op: "getf", Key: k}
		case 2:
			op = Op{Op: "delf", Key: k}
			pend[k] = "del?"
		case 3:
			op = Op{Op: "cancelsetf", Key: k}
		case 4:
			op = Op{Op: "canceldelf", Key: k}
		case 5:
			val++
			op = Op{Op: "set", Key: k, Val: val}
			mpend[k] = "set"
		case 6:
			op = Op{Op: "get", Key: k}
		case 7:
			op = Op{Op: "del", Key: k}
		case 8:
			op = Op{Op: "cancelset", Key: k}
		case 9:
			op = Op{Op: "canceldel", Key: k}
		case 10:
			op = Op{Op: "read", Key: k}
		case 11:
			op = Op{Op: "iter"}
		case 12:
			op = Op{Op: "commit"}
			ver++
			pend = map[int]string{}
		case 13:
			op = Op{Op: "hist", Key: k, Ver: int64(rng.Range(1, int(ver)+1))}
		case 14:
			op = Op{Op: "reopen"}
		case 15:
			op = Op{Op: "crash"}
		case 16:
			op = Op{Op: "hopen", Ver: int64(rng.Range(1, int(ver)+1))}
			if rng.Chance(0.6) {
				op.Ver = ver // the then-latest version
			}
		case 17:
			op = Op{Op: "hread", Key: k, Val: uint64(rng.Intn(4))}
		}
		t.Ops = append(t.Ops, op)
	}
	return t
}

func run(t *ltrace, dir string) ([]*chain.Violation, *chain.Probes, []string) {
	_ = os.RemoveAll(dir)
	_ = os.MkdirAll(dir, 0o755)
	r := &runner{dir: filepath.Join(dir, "a"), m: newModel(), probes: chain.NewProbes()}
	defer func() {
		if r.L != nil {
			_ = r.L.Close()
		}
		if r.twin != nil {
			_ = r.twin.Close()
		}
		_ = os.RemoveAll(dir)
		matches, _ := filepath.Glob(dir + "*")
		for _, m := range matches {
			_ = os.RemoveAll(m)
		}
	}()
	var err error
	if r.L, err = open(r.dir); err != nil {
		return []*chain.Violation{{Check: "harness.setup", Props: []string{"HARNESS"}, Detail: err.Error()}}, r.probes, nil
	}
	if r.twin, err = open(filepath.Join(dir, "twin")); err != nil {
		r.twin = nil
	}
	for i, op := range t.Ops {
		r.step = i
		if err := r.apply(op); err != nil {
			if len(r.viol) == 0 {
				// not a verdict about the ledger: the harness could not carry out the step
				r.viol = append(r.viol, &chain.Violation{Check: "harness.op", Props: []string{"HARNESS"}, Height: int64(i), Detail: fmt.Sprintf("op %d (%s): %v", i, op.Op, err)})
			}
			break
		}
		if len(r.viol) > 0 {
			break
		}
	}
	return r.viol, r.probes, r.log
}

func result(tr *chain.Trace, t *ltrace, viol []*chain.Violation, probes *chain.Probes, log []string, start time.Time) *chain.WorldResult {
	res := &chain.WorldResult{Seed: tr.Seed, World: tr.World, Property: "C18", Blocks: probes.C["commit"], TxTotal: len(t.Ops), TxOK: len(t.Ops),
		Replicas: 1, Violations: viol, Probes: probes.C, WallMs: time.Since(start).Milliseconds()}
	var ops []string
	for _, o := range t.Ops {
		ops = append(ops, o.Op)
	}
	res.Shape = fmt.Sprintf("%x", core.Derive(0, strings.Join(ops, ","), 0).Uint64())
	res.LogHash = fmt.Sprintf("%x", core.Derive(0, strings.Join(log, "\n"), uint64(len(viol))).Uint64())
	res.NonTrivial = probes.C["commit"] >= 1 && (probes.C["delete"] >= 1 || probes.C["fault.reopen"]+probes.C["fault.crash"] >= 1)
	b, _ := json.Marshal(t.Ops)
	if len(b) > 600 {
		b = append(b[:600], []byte("...")...)
	}
	res.Sample = fmt.Sprintf("seed=%d world=%d keys=%d ops=%s", tr.Seed, tr.World, t.Keys, b)
	if len(viol) > 0 {
		res.Trace = tr
	}
	return res
}

func scratch(n int) string {
	return filepath.Join("/dev/shm", fmt.Sprintf("verif-%d", os.Getpid()), fmt.Sprintf("ledger%d", n))
}

// Explore runs one seeded world; on a violation the trace is minimised (ddmin over operations).
func Explore(tier string, seed uint64, world int) *chain.WorldResult {
	start := time.Now()
	rng := core.Derive(seed, "ledger", uint64(world))
	t := generate(rng, tier)
	viol, probes, log := run(t, scratch(world))
	if len(viol) > 0 {
		t = shrink(t, viol[0].Check, world)
		viol, probes, log = run(t, scratch(world))
	}
	tr := &chain.Trace{Version: 1, Engine: "ledger-sim", Seed: seed, World: world}
	b, _ := json.Marshal(t)
	tr.Note = string(b)
	if len(viol) > 0 {
		tr.Expect = viol[0].Check
	}
	return result(tr, t, viol, probes, log, start)
}

func shrink(t *ltrace, check string, world int) *ltrace {
	best := t
	for i := len(best.Ops) - 1; i >= 0; i-- {
		c := &ltrace{Keys: best.Keys, Ops: append(append([]Op(nil), best.Ops[:i]...), best.Ops[i+1:]...)}
		v, _, _ := run(c, scratch(world))
		if len(v) > 0 && v[0].Check == check {
			best = c
		}
	}
	return best
}

// Replay executes a recorded ledger trace.
func Replay(tr *chain.Trace) *chain.WorldResult {
	start := time.Now()
	t := &ltrace{}
	if err := json.Unmarshal([]byte(tr.Note), t); err != nil {
		return &chain.WorldResult{Violations: []*chain.Violation{{Check: "harness.trace", Props: []string{"HARNESS"}, Detail: err.Error()}}}
	}
	viol, probes, log := run(t, scratch(0))
	return result(tr, t, viol, probes, log, start)
}

var _ = sort.Ints
