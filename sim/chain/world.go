package chain

import (
	"bytes"
	"crypto/sha256"
	"encoding/hex"
	"fmt"
	"math/big"
	"os"
	"path/filepath"
	"sort"
	"strings"
	"time"

	"github.com/holiman/uint256"
	rtypes "github.com/rigochain/rigo-go/ctrlers/types"
	"github.com/rigochain/rigo-go/genesis"
	abci "github.com/tendermint/tendermint/abci/types"
	tmproto "github.com/tendermint/tendermint/proto/tendermint/types"
	sm "github.com/tendermint/tendermint/state"
	tmtypes "github.com/tendermint/tendermint/types"

	"verifsim/core"
)

type chainBlock struct {
	Block  *tmtypes.Block
	Parts  *tmtypes.PartSet
	Commit *tmtypes.Commit
}

type pendingFork struct {
	Img    *Image
	Fault  Fault
	Height int64 // block being processed when the image was taken
	Point  string
	From   int
}

type forkRep struct {
	R      *Replica
	Until  int64
	Origin string
}

// World is one simulated execution: replicas, the block producer, clients, the reference model.
type World struct {
	Tr      *Trace
	Explore bool
	Rng     *core.Rand
	Gen     *Generator
	Base    string

	Actors []*Actor
	ByAddr map[Addr]*Actor
	M      *Model
	GenDoc *tmtypes.GenesisDoc

	Reps    []*Replica // [0] is the block producer ("leader"), never restarted
	Forks   []*forkRep
	Chain   []*chainBlock // index = height-1
	History [][]byte
	HistPlain []bool // the entry is a tx exactly as the harness signed it (its nonce field is the signed nonce)
	Parked  []string // hex of genuine txs that passed some node's mempool check and were not put into a block yet

	cur      *BlockStep
	curH     int64
	forgedCheckH int64 // height during which the block producer last served a CheckTx of a tx altered after signing
	curPlans []*TxPlan
	cwCount  int
	pending  []*pendingFork
	forkSeq  int
	lastBlkT time.Time

	Log    []string
	Viol   []*Violation
	Probes *Probes
	Fatal  bool

	QueryMemo      map[string][]byte // (path|data|height) -> first answer
	BootstrapDirty bool
	SimTimeMs      int64
	Blocks         int
	TxTotal        int
	TxOK           int
	ShapeParts     []string
	OnlyProps      map[string]bool
	StopAtFirst    bool
	Deadline       time.Time
	TimedOut       bool

	modelDiverged    bool
	tamperedAt       map[int64]bool // heights with a rejected tampered tx
	duplicateAt      map[int64]bool // heights with a rejected re-submission of an executed tx
	expectIssued     *big.Int
	adoptGov         bool
	deletedThisBlock map[Addr]bool
	restarted        map[int]bool
	lastRefundCount  int
	lastValSet       string
	lastVSChanged    int
}

func (w *World) logf(f string, a ...interface{}) { w.Log = append(w.Log, fmt.Sprintf(f, a...)) }

// replicaFamily: verdicts that compare nodes with each other (or a node with the engine), not with the model.
func replicaFamily(check string) bool {
	for _, p := range []string{"replica.", "crash.", "reopen.", "apply.", "open.", "side.panic", "harness."} {
		if strings.HasPrefix(check, p) {
			return true
		}
	}
	return false
}

// modelOffTrack: some verdict so far says that the model and the block producer disagree (verdicts about
// crashed images or about the node's agreement with itself do not).
func (w *World) modelOffTrack() bool {
	if w.modelDiverged {
		return true
	}
	for _, v := range w.Viol {
		if !selfConsistencyCheck(v.Check) {
			return true
		}
	}
	return false
}

// selfConsistencyCheck: verdicts about the node's agreement with itself, which leave the model on track.
func selfConsistencyCheck(check string) bool {
	if strings.HasPrefix(check, "crash.") {
		return true // about a crashed image, not about the block producer the model follows
	}
	switch check {
	case "stake.self", "stake.total", "stake.misfiled", "stake.totalquery", "stake.votingquery", "query.value", "query.unstable", "query.future":
		return true
	}
	return false
}

func (w *World) violate(check string, props []string, h int64, f string, a ...interface{}) *Violation {
	v := &Violation{Check: check, Props: props, Height: h, Detail: fmt.Sprintf(f, a...)}
	if w.modelDiverged && !replicaFamily(check) {
		// the model already left the node's track in an earlier block: its verdicts are no longer meaningful,
		// but node-vs-node comparisons still are, so the world goes on for those
		return v
	}
	w.Viol = append(w.Viol, v)
	w.logf("VIOL %s h=%d %s", check, h, v.Detail)
	return v
}

func (w *World) LogHash() string {
	h := sha256.New()
	for _, l := range w.Log {
		h.Write([]byte(l))
		h.Write([]byte{'\n'})
	}
	return hex.EncodeToString(h.Sum(nil))[:16]
}

func govParamsFromDoc(doc string) (*rtypes.GovParams, error) {
	gp := &rtypes.GovParams{}
	if err := gp.UnmarshalJSON([]byte(doc)); err != nil {
		return nil, err
	}
	return gp, nil
}

// NewWorld sets up actors, genesis, the model and the leader replica.
func NewWorld(tr *Trace, explore bool, baseDir string) (*World, error) {
	w := &World{Tr: tr, Explore: explore, Base: baseDir, ByAddr: map[Addr]*Actor{}, Probes: NewProbes(),
		QueryMemo: map[string][]byte{}, deletedThisBlock: map[Addr]bool{}, restarted: map[int]bool{}, tamperedAt: map[int64]bool{}, duplicateAt: map[int64]bool{}}
	if explore {
		w.Rng = core.Derive(tr.Seed, "world", uint64(tr.World))
		w.Gen = NewGenerator(w)
	}
	g := tr.Genesis
	for i := range g.Actors {
		a := NewActor(tr.Seed^uint64(tr.World)*0x9e3779b97f4a7c15, i)
		w.Actors = append(w.Actors, a)
		w.ByAddr[a.Addr] = a
	}
	w.M = NewModel(g.ChainID, g.Gov)
	holders := map[Addr]*big.Int{}
	var gh []*genesis.GenesisAssetHolder
	var gvals []tmtypes.GenesisValidator
	var mvals []GenVal
	for i, ga := range g.Actors {
		a := w.Actors[i]
		bal, ok := new(big.Int).SetString(ga.Balance, 10)
		if !ok {
			bal = new(big.Int)
		}
		if bal.Sign() > 0 {
			holders[a.Addr] = bal
			ub, _ := uint256.FromBig(bal)
			gh = append(gh, &genesis.GenesisAssetHolder{Address: a.Addr.Bytes(), Balance: ub})
		}
		if ga.Power > 0 {
			gvals = append(gvals, tmtypes.GenesisValidator{Address: a.TmPriv.PubKey().Address(), PubKey: a.TmPriv.PubKey(), Power: ga.Power, Name: fmt.Sprintf("v%d", i)})
			mvals = append(mvals, GenVal{Addr: a.Addr, PubKey: a.PubKey, Power: ga.Power})
		}
	}
	gp, err := govParamsFromDoc(g.Gov.Doc())
	if err != nil {
		return nil, fmt.Errorf("gov params: %w", err)
	}
	gd, err := genesis.NewGenesisDoc(g.ChainID, gvals, gh, gp)
	if err != nil {
		return nil, err
	}
	gd.GenesisTime = time.Unix(g.TimeUnix, 0).UTC()
	if err := gd.ValidateAndComplete(); err != nil {
		return nil, err
	}
	w.GenDoc = gd
	w.M.InitGenesis(holders, mvals)
	w.lastBlkT = gd.GenesisTime

	r, err := OpenReplica("L", filepath.Join(baseDir, "L"), gd, nil, nil, w.onYield, w.onCommitPoint)
	w.Reps = append(w.Reps, r)
	if err != nil {
		w.reportOpenError(r, err, 0, "genesis")
		return w, nil
	}
	for i := 0; i < tr.Cfg.Followers; i++ {
		name := fmt.Sprintf("F%d", i+1)
		// node-local differences on purpose: deeper directory, different name
		root := filepath.Join(baseDir, strings.Repeat("d/", i+1), name)
		fr, err := OpenReplica(name, root, gd, nil, nil, w.onYield, w.onCommitPoint)
		w.Reps = append(w.Reps, fr)
		if err != nil {
			w.reportOpenError(fr, err, 0, "genesis")
			return w, nil
		}
	}
	return w, nil
}

func (w *World) reportOpenError(r *Replica, err error, h int64, origin string) {
	if pe, ok := err.(*PanicError); ok {
		w.violate("open.panic", []string{"C08", "C07", "C09"}, h, "replica %s (%s): %s @ %s", r.Name, origin, pe.Val, pe.Stack)
	} else {
		w.violate("open.error", []string{"C08", "C07"}, h, "replica %s (%s): %v", r.Name, origin, err)
	}
	w.Fatal = true
}

func (w *World) Close() {
	for _, r := range w.Reps {
		if r != nil {
			r.Close()
		}
	}
	for _, f := range w.Forks {
		if f.R != nil {
			f.R.Close()
		}
	}
	_ = os.RemoveAll(w.Base)
}

func (w *World) repIndex(r *Replica) int {
	for i, x := range w.Reps {
		if x == r {
			return i
		}
	}
	for i, f := range w.Forks {
		if f.R == r {
			return 100 + i
		}
	}
	return -1
}

// ---- yields ----------------------------------------------------------------------------------

func (w *World) onYield(r *Replica, point string) {
	if point == "commit.pre" {
		w.cwCount = 0
	}
	ri := w.repIndex(r)
	if w.cur == nil || ri < 0 || ri >= 100 {
		return
	}
	for i := range w.cur.Sides {
		s := &w.cur.Sides[i]
		if s.Replica == ri && s.At == point {
			w.execSide(r, ri, s, point)
		}
	}
	for i := range w.cur.Faults {
		f := w.cur.Faults[i]
		if f.Kind == "crashfork" && f.Replica == ri && f.At == point {
			w.takeFork(r, ri, f, point)
		}
	}
}

func (w *World) onCommitPoint(r *Replica, name string, v int64) {
	w.cwCount++
	point := fmt.Sprintf("cw:%d", w.cwCount)
	ri := w.repIndex(r)
	if w.cur == nil || ri < 0 || ri >= 100 {
		return
	}
	for i := range w.cur.Faults {
		f := w.cur.Faults[i]
		if f.Kind == "crashfork" && f.Replica == ri && f.At == point {
			w.Probes.Hit("cw." + name)
			w.takeFork(r, ri, f, point+"("+name+")")
		}
	}
}

func (w *World) takeFork(r *Replica, ri int, f Fault, point string) {
	w.forkSeq++
	root := filepath.Join(w.Base, fmt.Sprintf("fork%d", w.forkSeq))
	img, err := r.Fork(root)
	if err != nil {
		w.logf("fork-failed %v", err)
		return
	}
	w.pending = append(w.pending, &pendingFork{Img: img, Fault: f, Height: w.curH, Point: point, From: ri})
	w.Probes.Hit("fault.crashfork")
	w.Probes.Hit("crashpoint." + pointClass(point))
}

func pointClass(p string) string {
	if i := strings.Index(p, " and again at "); i >= 0 {
		return pointClass(p[:i]) + "+again"
	}
	if strings.HasPrefix(p, "tx:") {
		return "tx"
	}
	if i := strings.Index(p, "("); i >= 0 {
		return "cw(" + p[i+1:]
	}
	return p
}

// ---- block production --------------------------------------------------------------------------

func (w *World) leader() *Replica { return w.Reps[0] }

func (w *World) actorOf(addr []byte) *Actor { return w.ByAddr[ToAddr(addr)] }

func (w *World) makeEvidence(h int64, step *BlockStep, st sm.State) []tmtypes.Evidence {
	var out []tmtypes.Evidence
	for i, es := range step.Evidence {
		if es.Actor < 0 || es.Actor >= len(w.Actors) || h < 2 {
			continue
		}
		eh := h - es.Height
		if eh < 1 {
			eh = 1
		}
		if eh >= h {
			eh = h - 1
		}
		valSet, err := w.leader().StateStore.LoadValidators(eh)
		if err != nil || valSet == nil {
			continue
		}
		act := w.Actors[es.Actor]
		idx, _ := valSet.GetByAddress(act.TmPriv.PubKey().Address())
		vi := idx
		if vi < 0 {
			vi = 0
		}
		bt := w.Chain[eh-1].Block.Time
		mk := func(tag byte) *tmtypes.Vote {
			hh := sha256.Sum256([]byte(fmt.Sprintf("ev-%d-%d-%d-%d", w.Tr.Seed, h, i, tag)))
			ph := sha256.Sum256(hh[:])
			v := &tmtypes.Vote{Type: tmproto.PrecommitType, Height: eh, Round: 0,
				BlockID:          tmtypes.BlockID{Hash: hh[:], PartSetHeader: tmtypes.PartSetHeader{Total: 1, Hash: ph[:]}},
				Timestamp:        bt,
				ValidatorAddress: act.TmPriv.PubKey().Address(), ValidatorIndex: int32(vi)}
			pv := v.ToProto()
			if err := act.PV.SignVote(w.M.ChainID, pv); err != nil {
				return nil
			}
			v.Signature = pv.Signature
			return v
		}
		v1, v2 := mk(1), mk(2)
		if v1 == nil || v2 == nil {
			continue
		}
		var ev *tmtypes.DuplicateVoteEvidence
		if idx >= 0 {
			ev = tmtypes.NewDuplicateVoteEvidence(v1, v2, bt, valSet)
		} else {
			a, b := v1, v2
			if strings.Compare(a.BlockID.Key(), b.BlockID.Key()) > 0 {
				a, b = b, a
			}
			ev = &tmtypes.DuplicateVoteEvidence{VoteA: a, VoteB: b, TotalVotingPower: valSet.TotalVotingPower(), ValidatorPower: 1, Timestamp: bt}
		}
		if ev == nil || ev.ValidateBasic() != nil {
			continue
		}
		out = append(out, ev)
	}
	return out
}

func (w *World) makeCommit(h int64, step *BlockStep, st sm.State, block *tmtypes.Block, parts *tmtypes.PartSet) (*tmtypes.Commit, error) {
	vals := st.Validators
	blockID := tmtypes.BlockID{Hash: block.Hash(), PartSetHeader: parts.Header()}
	n := vals.Size()
	absent := map[int]bool{}
	total := vals.TotalVotingPower()
	signed := total
	for _, a := range step.Absent {
		if n == 0 {
			break
		}
		i := ((a % n) + n) % n
		if absent[i] {
			continue
		}
		p := vals.Validators[i].VotingPower
		// the commit must keep more than 2/3 of the power, otherwise no block could follow
		if (signed-p)*3 > total*2 {
			absent[i] = true
			signed -= p
		}
	}
	vs := tmtypes.NewVoteSet(w.M.ChainID, h, 0, tmproto.PrecommitType, vals)
	base := block.Time.Add(time.Duration(step.DtMs) * time.Millisecond)
	for i, v := range vals.Validators {
		if absent[i] {
			continue
		}
		act := w.actorOf(v.Address)
		if act == nil {
			return nil, fmt.Errorf("no key for validator %X", v.Address)
		}
		ts := base
		if i < len(step.SkewMs) && step.SkewMs[i] > 0 {
			ts = ts.Add(time.Duration(step.SkewMs[i]) * time.Millisecond)
		}
		vote := &tmtypes.Vote{ValidatorAddress: v.Address, ValidatorIndex: int32(i), Height: h, Round: 0,
			Type: tmproto.PrecommitType, BlockID: blockID, Timestamp: ts}
		pv := vote.ToProto()
		if err := act.PV.SignVote(w.M.ChainID, pv); err != nil {
			return nil, err
		}
		vote.Signature = pv.Signature
		if _, err := vs.AddVote(vote); err != nil {
			return nil, err
		}
	}
	if len(absent) > 0 {
		w.Probes.Add("fault.absent", len(absent))
	}
	return vs.MakeCommit(), nil
}

// RunBlock produces block h from the step and applies it everywhere.
func (w *World) RunBlock(h int64, step *BlockStep) {
	L := w.leader()
	w.cur, w.curH = step, h
	st := L.State
	sc := newScratch()
	var plans []*TxPlan
	for i, it := range step.Txs {
		n := 1
		if it.Repeat > 0 {
			n += it.Repeat
		}
		p := w.materialise(it, h, i, sc)
		for k := 0; k < n; k++ {
			plans = append(plans, p)
		}
	}
	w.curPlans = plans
	var txs []tmtypes.Tx
	for _, p := range plans {
		txs = append(txs, tmtypes.Tx(p.Bytes))
	}
	var lastCommit *tmtypes.Commit
	if h == 1 {
		lastCommit = tmtypes.NewCommit(0, 0, tmtypes.BlockID{}, nil)
	} else {
		lastCommit = w.Chain[h-2].Commit
	}
	var proposer []byte
	nv := st.Validators.Size()
	if step.Proposer < 0 || nv == 0 {
		proposer = st.Validators.GetProposer().Address
	} else {
		proposer = st.Validators.Validators[step.Proposer%nv].Address
		w.Probes.Hit("fault.round-change")
	}
	evs := w.makeEvidence(h, step, st)
	if len(evs) > 0 {
		w.Probes.Add("fault.evidence", len(evs))
	}
	block, parts := st.MakeBlock(h, txs, lastCommit, evs, proposer)
	commit, err := w.makeCommit(h, step, st, block, parts)
	if err != nil {
		w.violate("harness.commit", []string{"HARNESS"}, h, "cannot build commit: %v", err)
		w.Fatal = true
		return
	}
	cb := &chainBlock{block, parts, commit}
	w.Chain = append(w.Chain, cb)
	for _, p := range plans {
		w.History = append(w.History, p.Bytes)
		w.HistPlain = append(w.HistPlain, p.Tx != nil && !p.Tampered && !p.Garbage && !p.SigMalleated && !p.InertMut && p.Intent.Mut == nil && p.ReplayOf < 0 && p.Intent.Kind != "raw" && p.Intent.Kind != "bytes" && !p.Intent.WrongChain && !p.Intent.EmptyChain)
	}
	if step.DtMs > 60_000 {
		w.Probes.Hit("fault.time-jump")
	}
	w.SimTimeMs += step.DtMs

	preState := st.Copy()
	// leader first
	if err := L.ApplyBlock(block, parts, commit); err != nil {
		w.reportApplyError(L, err, h)
		return
	}
	res := L.Results[h]
	if res == nil || len(res.DeliverTxs) != len(plans) {
		w.violate("harness.results", []string{"HARNESS"}, h, "missing results")
		w.Fatal = true
		return
	}
	w.Blocks++
	w.logBlock(L, h, res)

	// the model follows the leader's outcomes
	nviol0 := len(w.Viol)
	w.applyBlockToModel(h, step, plans, res, block, preState)

	// followers (lag is expressed by Fault{Kind:"lag"}: the follower skips this round and catches up later)
	for ri := 1; ri < len(w.Reps); ri++ {
		w.catchUp(ri, h, step)
	}
	for _, f := range w.Forks {
		if f.R != nil && !f.R.closed {
			w.followFork(f, h)
		}
	}
	if w.Fatal {
		return
	}
	// oracles over the committed state
	nviol := len(w.Viol)
	w.checkCommitted(h, res, block, preState)
	if w.M.GenesisInFlight >= 2 {
		// listed finding: all genesis stakes share one unbonding-record key (see known_findings.json)
		for _, v := range w.Viol[nviol:] {
			if v.Shape == "" && (strings.HasPrefix(v.Check, "diff.") || v.Check == "conservation" || v.Check == "valset" || strings.HasPrefix(v.Check, "stake.")) {
				v.Shape = "two-genesis-stakes-unbonding"
			}
		}
	}
	w.compareReplicas(h)
	// state differences in a block that already shows a listed finding's shape are its consequences
	blockShape := ""
	for _, v := range w.Viol[nviol0:] {
		if v.Shape != "" && blockShape == "" {
			blockShape = v.Shape
		}
	}
	if blockShape != "" {
		for _, v := range w.Viol[nviol0:] {
			if v.Shape == "" && (strings.HasPrefix(v.Check, "diff.") || v.Check == "conservation") {
				v.Shape = blockShape
				v.Detail += " (in a block showing " + blockShape + ")"
			}
		}
	}

	if len(w.Viol) > 0 {
		// a world that has hit a violation has diverged from the model: the model's verdicts after it are
		// not meaningful. Node-vs-node comparisons still are: the world continues for those unless the
		// violation already is one of them (or the model cannot continue at all).
		for _, v := range w.Viol {
			// a crashed image that does not recover concerns that image only: the chain, the block producer and
			// the other recovered nodes go on (otherwise the listed mid-commit finding, which every enumerated
			// block meets, would end each world one block after its first crash)
			if replicaFamily(v.Check) && !strings.HasPrefix(v.Check, "crash.") {
				w.Fatal = true
			}
		}
		// verdicts that compare the node with itself (its redundant totals against its own stake list, a
		// query answer against its own committed state) say nothing about the model's track: the model keeps
		// judging, so that the consequences of such a defect for other properties are seen as well
		diverged := false
		for _, v := range w.Viol {
			if !selfConsistencyCheck(v.Check) {
				diverged = true
			}
		}
		if diverged {
			if w.Fatal || (len(w.Reps)+len(w.Forks) < 2 && w.Tr.Cfg.CrashEnum == 0 && w.Tr.Cfg.PCrash == 0) {
				w.Fatal = true
				return
			}
			w.modelDiverged = true
		}
	}
	// faults at the block boundary
	w.cur = nil
	w.boundaryFaults(h, step)
	w.openPendingForks(h)
	w.retireForks(h)
}

func (w *World) lagging(ri int, step *BlockStep) bool {
	for _, f := range step.Faults {
		if f.Kind == "lag" && f.Replica == ri {
			return true
		}
	}
	return false
}

func (w *World) catchUp(ri int, h int64, step *BlockStep) {
	r := w.Reps[ri]
	if r == nil || r.closed {
		return
	}
	if w.lagging(ri, step) && h < int64(w.Tr.Cfg.Blocks) {
		w.Probes.Hit("fault.lag")
		return
	}
	for r.State.LastBlockHeight < h {
		nh := r.State.LastBlockHeight + 1
		cb := w.Chain[nh-1]
		// side steps and faults recorded for the current step apply only to the current height
		saved := w.cur
		if nh != h {
			w.cur = nil
		}
		err := r.ApplyBlock(cb.Block, cb.Parts, cb.Commit)
		w.cur = saved
		if err != nil {
			w.reportApplyError(r, err, nh)
			return
		}
	}
}

func (w *World) reportApplyError(r *Replica, err error, h int64) {
	isLeader := r == w.leader()
	if pe, ok := err.(*PanicError); ok {
		props := []string{"C09"}
		if !isLeader {
			props = append(props, "C01")
		}
		// where it panicked tells which rule could not be carried out
		for frag, prop := range map[string]string{"unfreezingStakes": "C12", "doRewardTo": "C13", "DoPunish": "C14", "doSlashAll": "C14",
			"applyProposals": "C15", "freezeProposals": "C15", "updateValidators": "C10", "validatorUpdates": "C10"} {
			if strings.Contains(pe.Stack, frag) {
				props = append(props, prop)
			}
		}
		// a block whose EndBlock (refunds, fee credit, proposals, validator updates) or BeginBlock (rewards,
		// slashing, downtime) dies has not carried out any of the rules that run there
		if isLeader && strings.Contains(pe.Stack, "RigoApp).EndBlock") {
			props = append(props, "C10", "C12", "C15", "C16")
		} else if isLeader && strings.Contains(pe.Stack, "RigoApp).BeginBlock") {
			props = append(props, "C13", "C14")
		}
		sort.Strings(props)
		v := w.violate("apply.panic", props, h, "replica %s: %s @ %s", r.Name, pe.Val, pe.Stack)
		v.Shape = panicShape(pe)
	} else if strings.Contains(err.Error(), "would result in empty set") {
		// the workload removed the last validator: an empty set is outside the statement (DESIGN 6/C10);
		// the world simply ends here
		w.Probes.Hit("valset.empty-attempt")
		w.logf("END empty validator set at h=%d", h)
	} else if strings.Contains(err.Error(), "validator updates") || strings.Contains(err.Error(), "commit failed for application") {
		w.violate("apply.valupdates", w.valUpdateProps(r), h, "replica %s: engine rejected validator updates: %v", r.Name, err)
	} else if isLeader && (strings.Contains(err.Error(), "Block.Header") || strings.Contains(err.Error(), "LastCommit") || strings.Contains(err.Error(), "invalid block")) {
		// the block itself (built by the harness from the producer's own state) does not validate
		w.violate("harness.apply", []string{"HARNESS"}, h, "leader rejected its own block: %v", err)
	} else if isLeader {
		// the block validated; what the engine refuses is something the application answered while executing it
		// (in v0.34 that is the validator updates: key type and size, power, membership)
		w.violate("apply.valupdates", w.valUpdateProps(r), h, "replica %s: the engine cannot use what the application returned for its own block: %v", r.Name, err)
	} else {
		// the real engine's validateBlock compares app hash, results hash and validator hashes
		w.violate("apply.diverged", []string{"C01"}, h, "replica %s cannot apply the leader's block: %v", r.Name, err)
	}
	w.Fatal = true
}

// valUpdateProps: updates the engine refuses break C10 ("every update is well-formed"); on a reopened node
// they also break restart equivalence.
func (w *World) valUpdateProps(r *Replica) []string {
	props := []string{"C10"}
	for ri, x := range w.Reps {
		if x == r && w.restarted[ri] {
			props = append(props, "C07")
		}
	}
	return props
}

func panicShape(pe *PanicError) string {
	s := pe.Stack
	switch {
	case strings.Contains(s, "deliverTxSync"):
		return "panic.deliverTxSync"
	case strings.Contains(s, "evm.(*EVMCtrler).Query"):
		return "panic.vm_call.query"
	}
	return "panic.other"
}

func digestTx(r *abci.ResponseDeliverTx) string {
	return fmt.Sprintf("%d/%x/%d/%d", r.Code, r.Data, r.GasWanted, r.GasUsed)
}

func digestValUpdates(vu []abci.ValidatorUpdate) string {
	var s []string
	for _, u := range vu {
		s = append(s, fmt.Sprintf("%x:%d", u.PubKey.GetSecp256K1(), u.Power))
	}
	sort.Strings(s)
	return strings.Join(s, ",")
}

func (w *World) logBlock(r *Replica, h int64, res *BlockResult) {
	var codes []string
	for _, d := range res.DeliverTxs {
		codes = append(codes, fmt.Sprint(d.Code))
	}
	w.logf("B %s h=%d app=%x txs=[%s] vu=%s", r.Name, h, res.AppHash, strings.Join(codes, " "), digestValUpdates(res.EndBlock.ValidatorUpdates))
}

// compareReplicas: C01/C06/C07 — every consensus response must agree with the leader's.
func (w *World) compareReplicas(h int64) {
	L := w.leader()
	for ri := 1; ri < len(w.Reps); ri++ {
		r := w.Reps[ri]
		if r == nil || r.closed {
			continue
		}
		for hh := h; hh >= 1; hh-- {
			a, b := L.Results[hh], r.Results[hh]
			if a == nil || b == nil {
				break
			}
			if _, done := w.QueryMemo[fmt.Sprintf("cmp|%d|%d", ri, hh)]; done {
				break
			}
			w.QueryMemo[fmt.Sprintf("cmp|%d|%d", ri, hh)] = []byte{1}
			w.compareResults(L, r, ri, hh, a, b)
		}
	}
}

func (w *World) replicaProps(ri int) []string {
	props := []string{"C01"}
	if w.Tr.Cfg.Noisy {
		props = append(props, "C06", "C19")
	}
	if w.restarted[ri] || w.restarted[0] {
		props = append(props, "C07")
	}
	return props
}

func (w *World) compareResults(L, r *Replica, ri int, h int64, a, b *BlockResult) {
	props := w.replicaProps(ri)
	if len(a.DeliverTxs) != len(b.DeliverTxs) {
		w.violate("replica.txcount", props, h, "%s vs %s", L.Name, r.Name)
		return
	}
	for i := range a.DeliverTxs {
		if digestTx(a.DeliverTxs[i]) != digestTx(b.DeliverTxs[i]) {
			w.violate("replica.tx", props, h, "tx %d: %s=%s %s=%s log=%q", i, L.Name, digestTx(a.DeliverTxs[i]), r.Name, digestTx(b.DeliverTxs[i]), b.DeliverTxs[i].Log)
			return
		}
	}
	if digestValUpdates(a.EndBlock.ValidatorUpdates) != digestValUpdates(b.EndBlock.ValidatorUpdates) {
		// two nodes at the same committed state announce different validator updates: at most one of them mirrors
		// the staking ledger (C10 quantifies over restarts too)
		props = append(append([]string(nil), props...), "C10")
		w.violate("replica.valupdates", props, h, "%s=%s %s=%s", L.Name, digestValUpdates(a.EndBlock.ValidatorUpdates), r.Name, digestValUpdates(b.EndBlock.ValidatorUpdates))
		return
	}
	if !bytes.Equal(a.AppHash, b.AppHash) {
		w.violate("replica.apphash", props, h, "%s=%x %s=%x", L.Name, a.AppHash, r.Name, b.AppHash)
	}
}
