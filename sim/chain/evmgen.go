package chain

import (
	"math/big"

	"github.com/holiman/uint256"
	rtypes "github.com/rigochain/rigo-go/ctrlers/types"
	"github.com/rigochain/rigo-go/libs/web3"
)

// Generated EVM programs: small sequences of snippets assembled to bytecode. Snippets that need
// a target address or value read them from calldata words, so that one program can be driven at
// plain accounts, other generated contracts, precompiles and itself.

type asm struct{ b []byte }

func (a *asm) op(ops ...byte) *asm { a.b = append(a.b, ops...); return a }
func (a *asm) push(v uint64) *asm {
	if v == 0 {
		return a.op(0x60, 0)
	}
	var bs []byte
	for x := v; x > 0; x >>= 8 {
		bs = append([]byte{byte(x)}, bs...)
	}
	a.b = append(a.b, byte(0x5f+len(bs)))
	a.b = append(a.b, bs...)
	return a
}
func (a *asm) pushBytes(bs []byte) *asm {
	if len(bs) == 0 || len(bs) > 32 {
		return a.push(0)
	}
	a.b = append(a.b, byte(0x5f+len(bs)))
	a.b = append(a.b, bs...)
	return a
}

const (
	opSTOP, opADD, opMUL, opSUB, opDIV      = 0x00, 0x01, 0x02, 0x03, 0x04
	opLT, opGT, opEQ, opISZERO              = 0x10, 0x11, 0x14, 0x15
	opAND                                   = 0x16
	opSHA3                                  = 0x20
	opADDRESS, opBALANCE, opORIGIN          = 0x30, 0x31, 0x32
	opCALLER, opCALLVALUE, opCALLDATALOAD   = 0x33, 0x34, 0x35
	opCALLDATASIZE, opCODECOPY              = 0x36, 0x39
	opGASPRICE, opEXTCODESIZE               = 0x3a, 0x3b
	opRETURNDATASIZE, opRETURNDATACOPY      = 0x3d, 0x3e
	opBLOCKHASH, opCOINBASE, opTIMESTAMP    = 0x40, 0x41, 0x42
	opNUMBER, opCHAINID, opSELFBALANCE      = 0x43, 0x46, 0x47
	opPOP, opMLOAD, opMSTORE                = 0x50, 0x51, 0x52
	opSLOAD, opSSTORE, opJUMP, opJUMPI      = 0x54, 0x55, 0x56, 0x57
	opGAS, opJUMPDEST                       = 0x5a, 0x5b
	opDUP1, opSWAP1                         = 0x80, 0x90
	opLOG0                                  = 0xa0
	opCREATE, opCALL, opRETURN              = 0xf0, 0xf1, 0xf3
	opDELEGATECALL, opCREATE2, opSTATICCALL = 0xf4, 0xf5, 0xfa
	opREVERT, opINVALID, opSELFDESTRUCT     = 0xfd, 0xfe, 0xff
)

// wrapInit returns init code that (optionally after a prologue) returns `runtime` as the code.
func wrapInit(prologue, runtime []byte) []byte {
	a := &asm{}
	a.b = append(a.b, prologue...)
	// CODECOPY(0, offset, len); RETURN(0, len)
	// offset is known after assembling: the fixed tail is 12 bytes when len and offset fit 2 bytes
	tail := &asm{}
	off := len(a.b) + 15
	tail.op(0x61, byte(len(runtime)>>8), byte(len(runtime))) // PUSH2 len
	tail.op(0x61, byte(off>>8), byte(off))                   // PUSH2 off
	tail.op(0x60, 0, opCODECOPY)                             // PUSH1 0 CODECOPY
	tail.op(0x61, byte(len(runtime)>>8), byte(len(runtime))) // PUSH2 len
	tail.op(0x60, 0, opRETURN)
	a.b = append(a.b, tail.b...)
	a.b = append(a.b, runtime...)
	return a.b
}

// snippet appends one behaviour. slot is a fresh storage slot for results.
func (g *Generator) snippet(a *asm, kind int, slot uint64) {
	word := func(i uint64) { a.push(i * 32).op(opCALLDATALOAD) } // calldata word i
	switch kind {
	case 0: // counter++ in slot 0
		a.push(0).op(opSLOAD).push(1).op(opADD).push(0).op(opSSTORE)
	case 1: // store a constant
		a.push(uint64(g.r.Intn(1000) + 1)).push(slot).op(opSSTORE)
	case 2: // BALANCE(word0) -> slot
		word(0)
		a.op(opBALANCE).push(slot).op(opSSTORE)
	case 3: // SELFBALANCE -> slot
		a.op(opSELFBALANCE).push(slot).op(opSSTORE)
	case 4: // CALL(gas, word0, word1 as value, no data) -> slot
		a.push(0).push(0).push(0).push(0)
		word(1)
		word(0)
		a.op(opGAS, opCALL).push(slot).op(opSSTORE)
	case 5: // forward half of CALLVALUE to word0
		a.push(0).push(0).push(0).push(0)
		a.push(2).op(opCALLVALUE)
		a.op(opSWAP1, opSWAP1) // no-op pair keeps bytecode varied
		a.op(opDIV)            // CALLVALUE / 2  (stack: 2, CALLVALUE -> DIV pops a=CALLVALUE? see note)
		word(0)
		a.op(opGAS, opCALL, opPOP)
	case 6: // LOG with 0..2 topics over a memory word
		a.push(uint64(g.r.Intn(1 << 16))).push(0).op(opMSTORE)
		n := g.r.Intn(3)
		for i := 0; i < n; i++ {
			a.push(uint64(g.r.Intn(1 << 20)))
		}
		a.push(32).push(0).op(byte(opLOG0 + n))
	case 7: // STATICCALL word0 with calldata passthrough of word2 -> slot
		a.push(0).push(0).push(0).push(0)
		word(0)
		a.op(opGAS, opSTATICCALL).push(slot).op(opSSTORE)
	case 8: // CREATE a tiny child (stores 7 in its slot 1, code = STOP) with value word1
		child := wrapInit((&asm{}).push(7).push(1).op(opSSTORE).b, []byte{opSTOP})
		g.memWrite(a, child)
		a.push(uint64(len(child))).push(0)
		word(1)
		a.op(opCREATE).push(slot).op(opSSTORE)
	case 9: // CREATE2 with salt
		child := wrapInit(nil, []byte{opCALLVALUE, opPOP, opSTOP})
		g.memWrite(a, child)
		a.push(uint64(g.r.Intn(1000))).push(uint64(len(child))).push(0).push(0).op(opCREATE2).push(slot).op(opSSTORE)
	case 10: // if word2 != 0: REVERT with one word of data
		word(2)
		a.op(opISZERO)
		// jump over the revert when zero
		a.push(0) // placeholder patched below
		pos := len(a.b) - 1
		a.op(opJUMPI)
		a.push(0xdead).push(0).op(opMSTORE).push(32).push(0).op(opREVERT)
		a.op(opJUMPDEST)
		a.b[pos] = byte(len(a.b) - 1)
	case 11: // if word3 != 0: SELFDESTRUCT to word0
		word(3)
		a.op(opISZERO)
		a.push(0)
		pos := len(a.b) - 1
		a.op(opJUMPI)
		word(0)
		a.op(opSELFDESTRUCT)
		a.op(opJUMPDEST)
		a.b[pos] = byte(len(a.b) - 1)
	case 22: // a plain transfer (no calldata) makes the contract destroy itself in favour of the caller
		a.op(opCALLDATASIZE)
		a.push(0)
		pos := len(a.b) - 1
		a.op(opJUMPI)
		a.op(opCALLER, opSELFDESTRUCT)
		a.op(opJUMPDEST)
		a.b[pos] = byte(len(a.b) - 1)
	case 12: // environment reads -> slot
		ops := []byte{opTIMESTAMP, opNUMBER, opCOINBASE, opCHAINID, opGASPRICE, opORIGIN, opCALLER, opADDRESS, 0x44 /*DIFFICULTY*/, 0x45 /*GASLIMIT*/, 0x48 /*BASEFEE*/}
		a.op(ops[g.r.Intn(len(ops))]).push(slot).op(opSSTORE)
	case 13: // DELEGATECALL word0 -> slot
		a.push(0).push(0).push(0).push(0)
		word(0)
		a.op(opGAS, opDELEGATECALL).push(slot).op(opSSTORE)
	case 14: // if word4 != 0 burn gas forever (out of gas)
		word(4)
		a.op(opISZERO)
		a.push(0)
		pos := len(a.b) - 1
		a.op(opJUMPI)
		loop := len(a.b)
		a.op(opJUMPDEST).push(uint64(loop)).op(opJUMP)
		a.op(opJUMPDEST)
		a.b[pos] = byte(len(a.b) - 1)
	case 16: // BALANCE(word5) -> slot  (touch the second target)
		word(5)
		a.op(opBALANCE).push(slot).op(opSSTORE)
	case 17: // CALL(word5, value = word1) -> slot
		a.push(0).push(0).push(0).push(0)
		word(1)
		word(5)
		a.op(opGAS, opCALL).push(slot).op(opSSTORE)
	case 18: // CALL(word5, value = CALLVALUE) -> slot
		a.push(0).push(0).push(0).push(0)
		a.op(opCALLVALUE)
		word(5)
		a.op(opGAS, opCALL).push(slot).op(opSSTORE)
	case 19: // CALL(word0, value 0, forwarding the whole calldata) -> slot: the callee sees the same words
		a.op(opCALLDATASIZE).push(0).push(0).op(0x37) // CALLDATACOPY(0,0,size)
		a.push(0).push(0).op(opCALLDATASIZE).push(0).push(0)
		word(0)
		a.op(opGAS, opCALL).push(slot).op(opSSTORE)
	case 20: // unconditional REVERT
		a.push(0).push(0).op(opREVERT)
	case 21: // CALL(word0, value = CALLVALUE/2, forwarding calldata) -> slot
		a.op(opCALLDATASIZE).push(0).push(0).op(0x37)
		a.push(0).push(0).op(opCALLDATASIZE).push(0)
		a.push(2).op(opCALLVALUE).op(opDIV)
		word(0)
		a.op(opGAS, opCALL).push(slot).op(opSSTORE)
	case 15: // return data of a call copied and stored
		a.push(0).push(0).push(0).push(0).push(0)
		word(0)
		a.op(opGAS, opCALL, opPOP)
		a.op(opRETURNDATASIZE).push(slot).op(opSSTORE)
	}
}

// memWrite stores bs at memory offset 0 with MSTOREs of 32-byte chunks.
func (g *Generator) memWrite(a *asm, bs []byte) {
	for off := 0; off < len(bs); off += 32 {
		chunk := make([]byte, 32)
		copy(chunk, bs[off:])
		a.pushBytes(chunk).push(uint64(off)).op(opMSTORE)
	}
}

// scenario templates: snippet sequences that stress the coupling of the EVM world with the native
// ledger (touch-then-failing-subcall-then-pay, pay inside a reverting frame, forwarders, ...).
var templates = [][]int{
	{16, 4, 18},     // touch w5; call w0 (may fail, tolerated); pay w5 the call value
	{16, 19, 17},    // touch w5; forward to w0; pay w5
	{18, 20},        // pay w5 then revert (a "reverter" that moves value first)
	{17, 20},        // pay w5 (word1) then revert
	{20},            // plain reverter
	{21, 18},        // forward half of the value to w0 (with calldata), pay the rest to w5
	{19, 16, 18, 0}, // forward; touch; pay; count
	{3, 18, 3},      // self balance; pay; self balance
	{8, 17, 0},      // create a child with value; pay w5
	{4, 4, 17},      // two calls to w0 then pay w5
	{2, 16, 19, 18, 17},
}

// program returns (init code, runtime code).
func (g *Generator) program() ([]byte, []byte) {
	rt := &asm{}
	if g.r.Chance(0.45) {
		for i, k := range templates[g.r.Intn(len(templates))] {
			g.snippet(rt, k, uint64(10+i))
		}
	} else {
		n := g.r.Range(2, 6)
		for i := 0; i < n; i++ {
			k := g.r.Intn(22)
			if i == 0 && g.r.Chance(0.08) {
				k = 22
			}
			if len(rt.b) > 180 && (k == 10 || k == 11 || k == 14 || k == 22) {
				k = 0 // jump targets are one byte
			}
			if k == 20 && i < n-1 {
				k = 17
			}
			g.snippet(rt, k, uint64(10+i))
		}
	}
	switch {
	case g.r.Chance(0.25):
		rt.push(uint64(g.r.Intn(1 << 30))).push(0).op(opMSTORE).push(32).push(0).op(opRETURN)
	case g.r.Chance(0.4):
		// return BALANCE(word0) and BALANCE(word5): read-only calls then depend on the native ledger
		rt.push(0).op(opCALLDATALOAD, opBALANCE).push(0).op(opMSTORE)
		rt.push(5*32).op(opCALLDATALOAD, opBALANCE).push(32).op(opMSTORE)
		rt.op(opSELFBALANCE).push(64).op(opMSTORE)
		rt.push(96).push(0).op(opRETURN)
	default:
		rt.op(opSTOP)
	}
	pro := &asm{}
	switch g.r.Intn(6) {
	case 0:
		pro.push(uint64(g.r.Intn(100) + 1)).push(1).op(opSSTORE)
	case 1:
		pro.op(opCALLVALUE).push(2).op(opSSTORE)
	case 2:
		if g.r.Chance(0.3) {
			pro.push(0).push(0).op(opREVERT) // constructor that reverts
		}
	}
	return wrapInit(pro.b, rt.b), rt.b
}

// calldata: words [target, value, revertFlag, destructFlag, loopFlag]
func (g *Generator) calldata() []byte {
	w := g.w
	out := make([]byte, 0, 160)
	word := func(b []byte) {
		pad := make([]byte, 32-len(b))
		out = append(out, pad...)
		out = append(out, b...)
	}
	var tgt Addr
	switch g.r.Intn(8) {
	case 0, 1, 2, 3:
		if len(w.M.Contracts) > 0 {
			tgt = w.M.Contracts[g.r.Intn(len(w.M.Contracts))]
			break
		}
		fallthrough
	case 4:
		tgt = w.Actors[g.pickActor()].Addr
	case 5:
		tgt = Addr{19: byte(g.r.Range(1, 9))} // precompile
	case 6:
		g.freshCtr++
		tgt = freshAddr(w.Tr.Seed, g.freshCtr)
	case 7:
		tgt = Addr{}
	}
	word(tgt[:])
	word(big.NewInt(int64(g.r.Intn(100000))).Bytes())
	flag := func(p float64) {
		if g.r.Chance(p) {
			word([]byte{1})
		} else {
			word(nil)
		}
	}
	flag(0.15)
	flag(0.08)
	flag(0.05)
	var t2 Addr
	switch g.r.Intn(6) {
	case 0:
		g.freshCtr++
		t2 = freshAddr(w.Tr.Seed, g.freshCtr)
	case 1:
		if len(w.M.Contracts) > 0 {
			t2 = w.M.Contracts[g.r.Intn(len(w.M.Contracts))]
			break
		}
		fallthrough
	default:
		t2 = w.Actors[g.pickActor()].Addr
	}
	word(t2[:])
	if g.r.Chance(0.05) {
		return out[:g.r.Intn(len(out))]
	}
	return out
}

// hostileEnvelope: a well-formed envelope with hostile field values signed by a key that has no
// account (the unknown-sender path).
func (g *Generator) hostileEnvelope(h int64) []byte {
	w := g.w
	ghost := NewActor(w.Tr.Seed^0xabcdef, 1000+g.r.Intn(4))
	var tx *rtypes.Trx
	gp := uint256.NewInt(0)
	if v, ok := uint256.FromBig(w.M.Gov.GasPrice); !ok {
		gp = v
	}
	to := w.Actors[g.pickActor()].Addr.Bytes()
	switch g.r.Intn(5) {
	case 0:
		tx = web3.NewTrxTransfer(ghost.Addr.Bytes(), to, 0, w.M.Gov.MinTrxGas, gp, uint256.NewInt(1))
	case 1:
		tx = web3.NewTrxStaking(ghost.Addr.Bytes(), to, 0, w.M.Gov.MinTrxGas, gp, uint256.NewInt(1))
	case 2:
		tx = web3.NewTrxUnstaking(ghost.Addr.Bytes(), to, 0, w.M.Gov.MinTrxGas, gp, g.r.Bytes(g.r.Range(0, 40)))
	case 3:
		tx = web3.NewTrxVoting(ghost.Addr.Bytes(), make([]byte, 20), 0, w.M.Gov.MinTrxGas, gp, g.r.Bytes(g.r.Range(0, 40)), int32(g.r.Intn(5))-2)
	default:
		tx = web3.NewTrxContract(ghost.Addr.Bytes(), to, 0, 100000, gp, uint256.NewInt(0), g.r.Bytes(g.r.Range(0, 64)))
	}
	tx.Time = h
	w.signTx(tx, ghost, w.M.ChainID)
	bz, xerr := tx.Encode()
	if xerr != nil {
		return []byte{9}
	}
	return bz
}
