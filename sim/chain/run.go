package chain

import (
	"crypto/sha256"
	"encoding/hex"
	"fmt"
	"os"
	"path/filepath"
	"strings"
	"time"

	"verifsim/core"
)

// extra World state (kept here to keep world.go readable)
type worldExtra struct{}

func removeTree(p string) error { return os.RemoveAll(p) }

type WorldResult struct {
	Seed       uint64         `json:"seed"`
	World      int            `json:"world"`
	Property   string         `json:"property"`
	Blocks     int            `json:"blocks"`
	TxTotal    int            `json:"txTotal"`
	TxOK       int            `json:"txOk"`
	Replicas   int            `json:"replicas"`
	Forks      int            `json:"forks"`
	SimTimeMs  int64          `json:"simTimeMs"`
	WallMs     int64          `json:"wallMs"`
	Violations []*Violation   `json:"violations,omitempty"`
	Probes     map[string]int `json:"probes"`
	LogHash    string         `json:"logHash"`
	Shape      string         `json:"shape"`
	NonTrivial bool           `json:"nonTrivial"`
	TimedOut   bool           `json:"timedOut,omitempty"`
	Trace      *Trace         `json:"trace,omitempty"`
	Sample     string         `json:"sample,omitempty"`
	Log        []string       `json:"log,omitempty"`
}

type RunOpts struct {
	KeepTrace bool
	KeepLog   bool
	MaxWall   time.Duration
	noMeta    bool
}

// NewExploreTrace draws configuration and genesis for world n of a seed.
func NewExploreTrace(prop, tier string, seed uint64, world int) *Trace {
	r := core.Derive(seed, "config-"+prop, uint64(world))
	cfg := NewConfig(prop, tier, r)
	if prop == "C06" && core.Derive(seed, "c06-boundary-tie", uint64(world)).Chance(0.08) {
		// drawn from its own stream: the other worlds of the seed are exactly what they were without this family
		cfg.BoundaryTie = true
		cfg.NVals = 3 // the staking limits are in force only with three or more validators
		if cfg.NActors < 6 {
			cfg.NActors = 6
		}
		cfg.PEvidence, cfg.POutage, cfg.PAbsent = 0, 0, 0
		cfg.KindW["unstake"] = 0.5
	}
	tr := &Trace{Version: 1, Engine: "chain-sim", Seed: seed, World: world, Cfg: cfg}
	tr.Genesis = NewGenesis(&tr.Cfg, seed, world, r)
	return tr
}

// RunTrace executes one world. explore=true: block steps are generated and appended to tr;
// explore=false: tr.Blocks is replayed and no PRNG is consulted.
func RunTrace(tr *Trace, explore bool, baseDir string, opts RunOpts) (res *WorldResult) {
	start := time.Now()
	res = &WorldResult{Seed: tr.Seed, World: tr.World, Property: tr.Cfg.Property}
	var w *World
	defer func() {
		if r := recover(); r != nil {
			// a panic that escaped every guarded call site is a harness failure, never a verdict
			res.Violations = append(res.Violations, &Violation{Check: "harness.panic", Props: []string{"HARNESS"}, Detail: fmt.Sprint(r)})
		}
		if w != nil {
			w.Close()
		}
		res.WallMs = time.Since(start).Milliseconds()
	}()
	var err error
	w, err = NewWorld(tr, explore, baseDir)
	if err != nil {
		res.Violations = append(res.Violations, &Violation{Check: "harness.setup", Props: []string{"HARNESS"}, Detail: err.Error()})
		return res
	}
	if opts.MaxWall > 0 {
		w.Deadline = start.Add(opts.MaxWall)
	}
	nblocks := tr.Cfg.Blocks
	if !explore {
		nblocks = len(tr.Blocks)
	}
	for h := int64(1); h <= int64(nblocks) && !w.Fatal; h++ {
		if !w.Deadline.IsZero() && time.Now().After(w.Deadline) {
			w.TimedOut = true
			break
		}
		var step *BlockStep
		if explore {
			s := w.Gen.NextBlock(h)
			tr.Blocks = append(tr.Blocks, s)
			step = &tr.Blocks[len(tr.Blocks)-1]
		} else {
			step = &tr.Blocks[h-1]
		}
		w.RunBlock(h, step)
	}
	if !w.TimedOut {
		w.finishForks()
	}
	if hookWorld != nil && opts.noMeta {
		hookWorld(w)
	}
	if tr.Cfg.Metamorphic && !opts.noMeta && len(w.Viol) == 0 && !w.TimedOut && w.Blocks > 0 {
		w.metamorphicFailedTxRemoval(baseDir, opts)
	}
	res.Blocks = w.Blocks
	res.TxTotal, res.TxOK = w.TxTotal, w.TxOK
	res.Replicas = len(w.Reps)
	res.Forks = len(w.Forks)
	res.SimTimeMs = w.SimTimeMs
	res.Violations = w.Viol
	res.Probes = w.Probes.C
	res.LogHash = w.LogHash()
	res.TimedOut = w.TimedOut
	sh := sha256.Sum256([]byte(strings.Join(w.ShapeParts, ",")))
	res.Shape = hex.EncodeToString(sh[:8])
	res.NonTrivial = nonTrivial(tr.Cfg.Property, res)
	if opts.KeepTrace || len(res.Violations) > 0 {
		res.Trace = tr
	}
	if opts.KeepLog {
		res.Log = w.Log
	}
	res.Sample = sampleOf(tr, res)
	return res
}

func sampleOf(tr *Trace, res *WorldResult) string {
	var parts []string
	for h, b := range tr.Blocks {
		if len(parts) > 12 {
			parts = append(parts, "...")
			break
		}
		var ks []string
		for _, t := range b.Txs {
			k := t.Kind
			if t.Mut != nil {
				k += "~" + t.Mut.Field
			}
			if t.Repeat > 0 {
				k += fmt.Sprintf("x%d", t.Repeat+1)
			}
			ks = append(ks, k)
		}
		s := fmt.Sprintf("h%d[%s]", h+1, strings.Join(ks, " "))
		if len(b.Absent) > 0 {
			s += fmt.Sprintf(" absent%v", b.Absent)
		}
		if len(b.Evidence) > 0 {
			s += fmt.Sprintf(" ev%d", len(b.Evidence))
		}
		if len(b.Sides) > 0 {
			s += fmt.Sprintf(" sides%d", len(b.Sides))
		}
		for _, f := range b.Faults {
			s += " " + f.Kind + "@" + f.At
			if len(s) > 160 {
				s += "…"
				break
			}
		}
		parts = append(parts, s)
	}
	return fmt.Sprintf("seed=%d world=%d vals=%d actors=%d followers=%d: %s", tr.Seed, tr.World, tr.Cfg.NVals, tr.Cfg.NActors, tr.Cfg.Followers, strings.Join(parts, " | "))
}

func sumPrefix(p map[string]int, prefix string) int {
	n := 0
	for k, v := range p {
		if strings.HasPrefix(k, prefix) {
			n += v
		}
	}
	return n
}

// nonTrivial: the per-property rule for "this world actually exercised the property".
func nonTrivial(prop string, r *WorldResult) bool {
	p := r.Probes
	base := r.Blocks >= 6 && r.TxOK >= 3
	switch prop {
	case "C01":
		return base && r.Replicas >= 2
	case "C02":
		return base && (sumPrefix(p, "tx.ok.staking")+sumPrefix(p, "tx.ok.unstaking")+sumPrefix(p, "tx.ok.withdraw")+sumPrefix(p, "tx.ok.contract") >= 1)
	case "C03":
		return p["tamper.otherwise-executable"] >= 1
	case "C04":
		return base && sumPrefix(p, "tx.fail.") >= 1 && r.TxOK >= 5
	case "C05":
		return r.Blocks >= 6 && sumPrefix(p, "tx.fail.") >= 3 && r.TxOK >= 3
	case "C06":
		return base && p["side.check"] >= 5 && r.Replicas >= 2
	case "C07":
		return base && p["fault.restart"] >= 1
	case "C08":
		return p["fault.crashfork"] >= 5
	case "C09":
		return p["garbage.in-block"]+p["side.check"]+p["side.query"] >= 5
	case "C10":
		return base && p["valset.changed"] >= 1
	case "C11":
		return base && p["tx.ok.staking"] >= 2 && p["tx.ok.unstaking"] >= 1
	case "C12":
		return p["tx.ok.unstaking"] >= 1 && p["refund.matured"] >= 1
	case "C13":
		return p["reward.issued"] >= 3 && (p["tx.ok.withdraw"] >= 1 || p["missed.signature"] >= 1)
	case "C14":
		return p["slash.known"] >= 1 || p["jail.fired"] >= 1
	case "C15":
		return p["tx.ok.proposal"] >= 1 && p["tx.ok.voting"] >= 1
	case "C16":
		return base && sumPrefix(p, "tx.fail.") >= 1
	case "C17":
		return p["evm.deploy"] >= 1 && p["evm.call"]+p["evm.transfer-to-contract"] >= 2
	case "C19":
		return sumPrefix(p, "query.judged.") >= 5
	}
	return base
}

// WorldDir returns a scratch directory for one world on tmpfs.
func WorldDir(n int) string {
	base := "/dev/shm"
	if _, err := os.Stat(base); err != nil {
		base = os.TempDir()
	}
	return filepath.Join(base, fmt.Sprintf("verif-%d", os.Getpid()), fmt.Sprintf("w%d", n))
}

// metamorphicFailedTxRemoval: "a failed transaction has no effect" implies that the same history with
// every failed transaction removed (the successful ones byte for byte, same absences, evidence and
// times) gives every remaining transaction the same result and the same validator updates. The second
// pass runs the full machinery again (its own model and oracles).
func (w *World) metamorphicFailedTxRemoval(baseDir string, opts RunOpts) {
	// variant A: every failed tx removed; variant B: a subset of the failed txs removed (then also the
	// results of the remaining failed txs must be unchanged: a failed tx must not make a later one fail)
	if w.metamorphicPass(baseDir, opts, "A") {
		return
	}
	w.metamorphicPass(baseDir, opts, "B")
}

func (w *World) metamorphicPass(baseDir string, opts RunOpts, variant string) bool {
	L := w.leader()
	tr2 := w.Tr.Clone()
	tr2.Cfg.Metamorphic = false
	tr2.Cfg.Followers = 0
	tr2.Cfg.Noisy, tr2.Cfg.NoisyLeader = false, false
	tr2.Blocks = nil
	type kept struct {
		h   int64
		idx int
		dig string
		log string
	}
	var keep []kept
	removed := 0
	var hist int
	for hi := range w.Tr.Blocks {
		h := int64(hi + 1)
		res := L.Results[h]
		if res == nil {
			break
		}
		b := w.Tr.Blocks[hi]
		nb := BlockStep{DtMs: b.DtMs, Proposer: b.Proposer, Absent: b.Absent, SkewMs: b.SkewMs, Evidence: b.Evidence}
		for i, d := range res.DeliverTxs {
			if hist+i >= len(w.History) {
				break
			}
			drop := d.Code != 0
			if drop && variant == "B" {
				hh := sha256.Sum256([]byte(fmt.Sprintf("meta-%d-%d-%d-%d", w.Tr.Seed, w.Tr.World, h, i)))
				drop = hh[0]&1 == 0
			}
			if !drop {
				nb.Txs = append(nb.Txs, Intent{Kind: "bytes", Raw: hex.EncodeToString(w.History[hist+i])})
				keep = append(keep, kept{h, i, digestTx(d), d.Log})
			} else {
				removed++
			}
		}
		hist += len(res.DeliverTxs)
		tr2.Blocks = append(tr2.Blocks, nb)
	}
	if removed == 0 || len(keep) == 0 {
		return false
	}
	w.Probes.Hit("metamorphic.second-pass." + variant)
	w.Probes.Add("metamorphic.failed-removed", removed)
	o2 := opts
	o2.noMeta = true
	o2.KeepLog = false
	r2, w2 := runTraceWorld(tr2, false, baseDir+"-meta"+variant, o2)
	if w2 == nil {
		return false
	}
	for _, v := range r2.Violations {
		if v.Shape != "" {
			// the second pass ran into the shape of a listed finding: not a verdict of this relation
			w.Probes.Hit("metamorphic.second-pass-hit-known-shape")
			return true
		}
		w.violate("metamorphic."+v.Check, append([]string{"C05"}, v.Props...), v.Height, "with failed transactions removed (variant %s): %s", variant, v.Detail)
		return true
	}
	k := 0
	for hi := range tr2.Blocks {
		h := int64(hi + 1)
		res2 := w2.Results[h]
		if res2 == nil {
			break
		}
		a, b := L.Results[h], res2
		for _, d := range b.DeliverTxs {
			if k >= len(keep) || keep[k].h != h {
				break
			}
			if digestTx(d) != keep[k].dig && (strings.Contains(d.Log, "gas limit reached") || strings.Contains(keep[k].log, "gas limit reached")) {
				// the block's gas pool is shared by the contract txs of a block and a failed execution draws on
				// it like a successful one (EVM rule, no listed state): not comparable
				w.Probes.Hit("metamorphic.gas-pool-skip")
				k++
				continue
			}
			if digestTx(d) != keep[k].dig {
				props := []string{"C05"}
				if w.tamperedAt[h] {
					props = append(props, "C03") // a tx whose signature does not verify was among the removed ones
				}
				if w.duplicateAt[h] {
					props = append(props, "C04") // a re-submitted, already executed tx was among the removed ones
				}
				w.violate("metamorphic.failed-tx-effect", props, h, "tx %d of block %d answers %s in the full history and %s when failed transactions before it are removed (variant %s; log %q)", keep[k].idx, h, keep[k].dig, digestTx(d), variant, d.Log)
				return true
			}
			k++
		}
		if digestValUpdates(a.EndBlock.ValidatorUpdates) != digestValUpdates(b.EndBlock.ValidatorUpdates) {
			w.violate("metamorphic.valupdates", []string{"C05"}, h, "validator updates at %d differ when failed transactions are removed: %s vs %s", h, digestValUpdates(a.EndBlock.ValidatorUpdates), digestValUpdates(b.EndBlock.ValidatorUpdates))
			return true
		}
	}
	return false
}

// runTraceWorld runs a trace and hands back the leader's results (used by the metamorphic pass).
func runTraceWorld(tr *Trace, explore bool, baseDir string, opts RunOpts) (*WorldResult, *Replica) {
	var keepL *Replica
	hookWorld = func(w *World) { keepL = &Replica{Results: w.leader().Results} }
	defer func() { hookWorld = nil }()
	res := RunTrace(tr, explore, baseDir, opts)
	return res, keepL
}

var hookWorld func(w *World)
