package chain

import (
	"bytes"
	"encoding/hex"
	"fmt"
	"math/big"
	"os"
	"sort"
	"strings"

	"verifsim/core"
)

// ---------------------------------------------------------------------------------------------
// Swarm configuration and seeded generation of genesis, workload, schedule and faults.
// ---------------------------------------------------------------------------------------------

func baseKinds() map[string]float64 {
	return map[string]float64{"transfer": 4, "stake": 2, "delegate": 2, "unstake": 2, "withdraw": 1.5, "proposal": 0.8, "vote": 1.5, "setdoc": 0.5, "deploy": 0, "call": 0}
}

// NewConfig draws the swarm configuration of one world for the given property and tier.
func NewConfig(prop string, tier string, r *core.Rand) Config {
	c := Config{Property: prop, KindW: baseKinds(), AvoidKnown: os.Getenv("VERIF_AVOID_KNOWN") != "0"}
	c.Blocks = r.Range(14, 36)
	if tier == "thorough" {
		c.Blocks = r.Range(16, 60)
	}
	c.NVals = r.Range(1, 6)
	c.NActors = c.NVals + r.Range(3, 8)
	c.TxMean = []float64{1.5, 3, 6}[r.Intn(3)]
	c.PInvalid = []float64{0.05, 0.2, 0.4}[r.Intn(3)]
	c.PAbsent = []float64{0, 0.1, 0.3}[r.Intn(3)]
	c.POutage = []float64{0, 0.05}[r.Intn(2)]
	c.PEvidence = []float64{0, 0.03, 0.1}[r.Intn(3)]
	c.PTimeJump = []float64{0, 0.05}[r.Intn(2)]
	c.PDup = []float64{0, 0.05}[r.Intn(2)]
	c.PReplay = []float64{0, 0.05}[r.Intn(2)]
	c.QueryMean = 0
	// swarm: drop some tx kinds entirely
	for _, k := range []string{"withdraw", "proposal", "vote", "setdoc", "unstake", "delegate"} {
		if r.Chance(0.2) {
			c.KindW[k] = 0
		}
	}
	if r.Chance(0.4) {
		c.EVM = true
		c.KindW["deploy"] = 1.0
		c.KindW["call"] = 2.5
	}
	switch prop {
	case "C01":
		c.Followers = r.Range(1, 3)
		c.PRestart = 0.03
		c.PLag = 0.1
		c.PEvidence = []float64{0.03, 0.1}[r.Intn(2)]
		if r.Chance(0.3) {
			// governance-heavy with more restarts: records that are rebuilt by decoding differ from the
			// objects a running node keeps only if something relies on identity or on unexported state
			c.KindW["proposal"], c.KindW["vote"] = 2.5, 6
			c.PRestart = 0.12
			c.NVals = r.Range(2, 5)
			c.NActors = c.NVals + r.Range(3, 6)
			c.Blocks = r.Range(24, 40)
		}
		if r.Chance(0.25) {
			// followers serve mempool checks (also of the genuine versions of txs a block carries altered)
			c.Noisy = true
			c.SideMean = 0.5
			c.PTamper = 0.15
		}
	case "C02":
		c.KindW["stake"], c.KindW["delegate"], c.KindW["unstake"], c.KindW["withdraw"] = 3, 3, 3, 2
		c.PInvalid = 0.3
		if r.Chance(0.6) {
			c.EVM = true
			c.KindW["deploy"], c.KindW["call"] = 1, 3
		}
	case "C03":
		c.PTamper = 0.35
		c.Metamorphic = r.Chance(0.4)
		if r.Chance(0.3) {
			// the block producer also serves query-connection traffic (Info, queries) and CheckTx
			c.Noisy, c.NoisyLeader = true, true
			c.SideMean, c.QueryMean = []float64{0.2, 0.6}[r.Intn(2)], 0.2
			c.Followers = 1
		}
		c.PInvalid = 0.05
		c.KindW["proposal"], c.KindW["vote"], c.KindW["setdoc"], c.KindW["withdraw"], c.KindW["unstake"] = 1, 1.5, 1, 1.5, 2
	case "C04":
		c.Metamorphic = r.Chance(0.4)
		c.PDup, c.PReplay = 0.25, 0.25
		c.PInvalid = 0.25
		c.TxMean = 5
		c.Followers = r.Intn(2)
		c.PRestart = 0.05
		if r.Chance(0.5) {
			c.EVM = true
			c.KindW["deploy"], c.KindW["call"] = 1, 3
		}
	case "C05":
		c.PInvalid = 0.5
		c.TxMean = 5
		c.Metamorphic = r.Chance(0.5)
		if r.Chance(0.5) {
			c.EVM = true
			c.KindW["deploy"], c.KindW["call"] = 1, 3
		}
	case "C06":
		c.Followers = 1
		c.Noisy = true
		c.SideMean = []float64{0.6, 1.5}[r.Intn(2)]
		c.QueryMean = 0.3
		if c.NVals < 3 && r.Chance(0.7) {
			c.NVals = r.Range(3, 5)
			c.NActors = c.NVals + r.Range(3, 6)
		}
		c.KindW["stake"], c.KindW["delegate"], c.KindW["unstake"], c.KindW["withdraw"] = 3, 3, 2, 2
	case "C07":
		c.Followers = r.Range(1, 2)
		c.PRestart = []float64{0.15, 0.3}[r.Intn(2)]
		if tier == "thorough" && r.Chance(0.25) {
			// enumeration arm: a follower is restarted after every single block of a short history
			c.PRestart = 1.0
			c.Blocks = r.Range(8, 14)
			c.Followers = 1
		}
		c.KindW["stake"], c.KindW["delegate"], c.KindW["unstake"] = 3, 3, 2
		if r.Chance(0.4) {
			// governance-heavy: parameters change while nodes are restarted ("restarts directly after blocks
			// that changed ... governance parameters")
			c.KindW["proposal"], c.KindW["vote"] = 2.5, 5
			c.NVals = r.Range(2, 4)
			c.NActors = c.NVals + r.Range(3, 6)
			c.Blocks = r.Range(24, 40)
		}
	case "C08":
		c.Followers = 0
		c.CrashEnum = 2
		c.Blocks = r.Range(8, 16)
		c.CrashAgain = r.Chance(0.3)
		if tier == "thorough" {
			c.CrashEnum = 6
			c.Blocks = r.Range(8, 14)
			c.CrashAgain = r.Chance(0.6)
		}
	case "C09":
		c.PGarbage = 0.3
		c.Followers = r.Intn(2)
		c.PRestart = []float64{0, 0.1}[r.Intn(2)]
		if r.Chance(0.5) {
			c.NVals = r.Range(3, 5)
			c.NActors = c.NVals + r.Range(3, 6)
		}
		c.Noisy = true
		c.SideMean = 0.8
		c.QueryMean = 0.5
	case "C10":
		c.KindW["stake"], c.KindW["delegate"], c.KindW["unstake"], c.KindW["proposal"], c.KindW["vote"] = 4, 3, 3, 1, 2
		c.NVals = r.Range(2, 6)
		c.NActors = c.NVals + r.Range(3, 8)
		c.PRestart = 0.05
		c.Followers = r.Intn(2)
		c.PEvidence = []float64{0.03, 0.1}[r.Intn(2)]
		c.PAbsent = []float64{0.1, 0.3}[r.Intn(2)]
	case "C11":
		c.KindW["stake"], c.KindW["delegate"], c.KindW["unstake"] = 4, 4, 4
		c.TxMean = 6
		c.PEvidence = []float64{0.03, 0.1}[r.Intn(2)]
	case "C12":
		c.KindW["stake"], c.KindW["delegate"], c.KindW["unstake"], c.KindW["proposal"], c.KindW["vote"] = 3, 3, 5, 1, 2
		c.PInvalid = 0.3
		c.PTamper = []float64{0, 0.08}[r.Intn(2)] // releases altered after signing ("only by a transaction signed by the account that created it")
	case "C13":
		c.KindW["withdraw"], c.KindW["stake"], c.KindW["delegate"], c.KindW["unstake"] = 4, 2, 3, 1.5
		c.PAbsent = []float64{0.1, 0.3}[r.Intn(2)]
		c.NVals = r.Range(2, 6)
		c.NActors = c.NVals + r.Range(3, 8)
		c.Blocks = r.Range(20, 40)
	case "C14":
		c.PEvidence = []float64{0.1, 0.25}[r.Intn(2)]
		c.PAbsent = []float64{0.2, 0.4}[r.Intn(2)]
		c.POutage = 0.1
		c.NVals = r.Range(3, 6)
		c.NActors = c.NVals + r.Range(3, 8)
		c.KindW["proposal"], c.KindW["vote"], c.KindW["delegate"] = 1.5, 2, 3
		c.Blocks = r.Range(20, 40)
	case "C15":
		c.KindW["proposal"], c.KindW["vote"] = 2.5, 5
		c.PTamper = []float64{0, 0.08}[r.Intn(2)] // proposals and votes altered after signing
		c.NVals = r.Range(2, 5)
		c.NActors = c.NVals + r.Range(2, 5)
		c.Blocks = r.Range(24, 44)
		c.PEvidence = []float64{0, 0.05}[r.Intn(2)]
	case "C16":
		c.PInvalid = 0.35
		c.KindW["proposal"], c.KindW["vote"] = 1.5, 3
		if r.Chance(0.5) {
			c.EVM = true
			c.KindW["deploy"], c.KindW["call"] = 1, 3
		}
		if r.Chance(0.35) {
			// mempool checks on the block producer: txs admitted under one set of fee parameters may be
			// delivered under another
			c.Noisy, c.NoisyLeader = true, true
			c.SideMean = 0.4
			c.Followers = 1
		}
	case "C17x":
	}
	switch prop {
	case "C17":
		c.EVM = true
		c.KindW["deploy"], c.KindW["call"] = 2, 6
		c.KindW["transfer"] = 3
		c.PRestart = 0.03
		c.Followers = r.Intn(2)
		c.QueryMean = 0.3
		c.Noisy = c.Followers > 0
	}
	if (prop == "C01" || prop == "C07" || prop == "C04") && r.Chance(0.3) {
		c.PCrash = 0.05
	}
	if prop == "C10" {
		c.PCrash = []float64{0.05, 0.15}[r.Intn(2)] // "including restarts": also crashes at ABCI boundaries of set-changing blocks
		if r.Chance(0.4) {
			// "governance changes of the validator limits ... including restarts": many parameter proposals, most of them
			// about the seat count and the minimum own stake, with restarts right after they take effect
			c.KindW["proposal"], c.KindW["vote"] = 2.5, 5
			c.NVals = r.Range(3, 5)
			c.NActors = c.NVals + r.Range(3, 6)
			c.Blocks = r.Range(24, 40)
			if c.PRestartL == 0 {
				c.PRestartL = 0.05
			}
		}
	}
	// swarm: in some worlds of any property the block producer itself serves mempool/query traffic
	// (then differences show up against the model with precise attribution) next to a quiet follower
	if prop != "C08" && prop != "C18" && prop != "C20" && !c.Noisy && r.Chance(0.15) {
		c.Noisy, c.NoisyLeader = true, true
		c.SideMean = 0.5
		c.QueryMean = []float64{0, 0.3}[r.Intn(2)]
		if c.Followers == 0 {
			c.Followers = 1
		}
	}
	// swarm: in some worlds the block producer is stopped and reopened between blocks; whatever is kept
	// in memory only and not rebuilt from the stores then shows against the model
	if prop != "C08" && prop != "C18" && prop != "C20" {
		c.PRestartL = []float64{0, 0, 0.05, 0.15}[r.Intn(4)]
		if prop == "C07" || prop == "C10" || prop == "C12" || prop == "C14" {
			c.PRestartL = []float64{0, 0.05, 0.15, 0.3}[r.Intn(4)]
		}
	}
	if prop != "C08" && prop != "C18" && prop != "C20" && (r.Chance(0.04) || (prop == "C04" && r.Chance(0.12))) {
		// hundreds of distinct accounts: whatever is bounded, evicted or rehashed by the number of items
		c.FreshHeavy = true
		c.KindW["transfer"] = 12
		c.TxMean = 10
		c.Blocks = r.Range(20, 32)
	}
	if prop == "C04" && c.EVM && r.Chance(0.4) {
		// read-only contract calls served by the block producer while it executes blocks
		c.Noisy, c.NoisyLeader = true, true
		c.SideMean, c.QueryMean = 0.1, 0.6
		if c.Followers == 0 {
			c.Followers = 1
		}
	}
	if prop == "C06" && r.Chance(0.35) {
		// blocks carrying txs altered after signing while the genuine versions reach the mempool check
		c.PTamper = 0.15
	}
	if prop == "C08" && r.Chance(0.5) {
		// enough validators for the staking limits to be in force, and a longer tail for the recovered nodes to
		// follow (what a recovery rebuilt differently may show many blocks later)
		c.NVals = r.Range(3, 5)
		c.NActors = c.NVals + r.Range(3, 6)
		c.KindW["unstake"], c.KindW["stake"], c.KindW["delegate"] = 3, 4, 3
		c.Blocks = r.Range(14, 24)
	}
	if (prop == "C12" || prop == "C14" || prop == "C02") && c.NVals >= 3 && r.Chance(0.2) {
		// a genesis validator without any coins that never signs: it is stopped for downtime and its stake is paid
		// back to an account that nothing else ever touched
		c.SilentVal = 1 + r.Intn(c.NVals)
	}
	if ((prop == "C05" || prop == "C13") && r.Chance(0.12)) || (prop != "C08" && prop != "C18" && prop != "C20" && r.Chance(0.02)) {
		// amounts at the 256-bit boundary inside the reward path
		c.RewardCliff = r.Range(4, 6)
		c.Blocks = 2*c.RewardCliff - 2
		c.KindW["withdraw"] = 5
		c.PAbsent, c.POutage = 0, 0
		if c.NVals < 1 {
			c.NVals = 1
		}
	}
	switch prop {
	case "C06":
		if r.Chance(0.5) {
			c.NoisyLeader = true
		}
	case "C13":
		if r.Chance(0.35) {
			c.Noisy, c.NoisyLeader = true, true
			c.SideMean = 0.6
			c.Followers = 1
		}
	case "C19":
		c.Followers = r.Range(1, 2)
		c.Noisy = true
		c.SideMean = 0.2
		c.QueryMean = []float64{1.0, 2.0}[r.Intn(2)]
		c.PLag = 0.15
		c.PRestart = 0.05
	}
	return c
}

// NewGenesis draws the genesis of one world.
func NewGenesis(c *Config, seed uint64, world int, r *core.Rand) GenesisSpec {
	g := GenesisSpec{ChainID: fmt.Sprintf("verif-%d", r.Intn(1000)), TimeUnix: 1_700_000_000 + int64(r.Intn(1_000_000))}
	coin := new(big.Int).Set(big1e18)
	minStakeCoins := int64(r.Range(1, 5))
	gov := GovP{
		Version:                 1,
		MaxValidatorCnt:         int64(r.Range(c.NVals, c.NVals+2)),
		MinValidatorStake:       new(big.Int).Mul(big.NewInt(minStakeCoins), coin),
		MinDelegatorStake:       new(big.Int),
		RewardPerPower:          big.NewInt(int64([]int{0, 1, 1000, 4_756_468_797}[r.Intn(4)])),
		LazyRewardBlocks:        int64(r.Range(1, 8)),
		LazyApplyingBlocks:      int64(r.Range(1, 4)),
		GasPrice:                big.NewInt(int64([]int{1, 10, 250_000_000_000, 1_000_000_000}[r.Intn(4)])),
		MinTrxGas:               uint64([]int{10, 1000, 4000}[r.Intn(3)]),
		MaxTrxGas:               25_000_000,
		MaxBlockGas:             1 << 62,
		MinVotingPeriodBlocks:   int64(r.Range(1, 3)),
		MaxVotingPeriodBlocks:   int64(r.Range(4, 10)),
		MinSelfStakeRatio:       int64([]int{0, 10, 50}[r.Intn(3)]),
		MaxUpdatableStakeRatio:  int64([]int{33, 100, 100}[r.Intn(3)]),
		MaxIndividualStakeRatio: int64([]int{33, 100, 10000}[r.Intn(3)]),
		SlashRatio:              int64([]int{1, 10, 50, 50, 99}[r.Intn(5)]),
		SignedBlocksWindow:      int64(r.Range(4, 12)),
	}
	gov.MinSignedBlocks = int64(r.Range(1, int(gov.SignedBlocksWindow)))
	if r.Chance(0.3) {
		gov.MinDelegatorStake = new(big.Int).Mul(big.NewInt(int64(r.Range(1, 3))), coin)
	}
	if r.Chance(0.25) {
		gov.MaxValidatorCnt = int64(c.NVals) // more candidates than seats becomes reachable
	}
	if r.Chance(0.1) || ((c.Property == "C13" || c.Property == "C03") && r.Chance(0.25)) {
		// reward rates at which power x rate leaves 64 bits
		gov.RewardPerPower, _ = new(big.Int).SetString([]string{"1000000000000000000", "4611686018427387904", "9223372036854775813", "30000000000000000000"}[r.Intn(4)], 10)
	}
	if r.Chance(0.1) || ((c.Property == "C16" || c.Property == "C17") && r.Chance(0.25)) {
		// a minimum gas above the EVM's intrinsic gas
		gov.MinTrxGas = uint64([]int{30_000, 60_000, 150_000}[r.Intn(3)])
	}
	whale := -1
	if c.NVals > 0 && (r.Chance(0.05) || (c.Property == "C13" && r.Chance(0.2))) {
		whale = r.Intn(c.NVals) // one validator whose power x the default rate leaves 64 bits
	}
	if (c.Property == "C08" || c.Property == "C07") && c.NVals >= 3 && r.Chance(0.7) {
		gov.MaxUpdatableStakeRatio = 33 // the per-block budget of changed power is in force
	}
	cliffPower := int64(0)
	if c.RewardCliff > 0 {
		whale = r.Intn(c.NVals)
		cliffPower = 3_000_000_000 + int64(r.Intn(1_000_000))*int64(r.Range(1, 20_000))
		den := new(big.Int).Mul(big.NewInt(cliffPower), big.NewInt(int64(c.RewardCliff)))
		gov.RewardPerPower = new(big.Int).Div(new(big.Int).Lsh(big.NewInt(1), 255), den)
	}
	if c.BoundaryTie {
		// as many seats as genesis validators, the per-block budget of changed power in force, no individual limit in the way
		gov.MaxValidatorCnt, gov.MaxUpdatableStakeRatio, gov.MaxIndividualStakeRatio = int64(c.NVals), 33, 10000
		gov.MinDelegatorStake = big.NewInt(0)
		whale = -1
	}
	g.Gov = gov
	for i := 0; i < c.NActors; i++ {
		ga := GenActor{}
		// balances between 10^3 and 10^6 coins; a few poor and a few empty accounts
		switch r.Intn(8) {
		case 0:
			ga.Balance = "0"
		case 1:
			ga.Balance = new(big.Int).Mul(big.NewInt(int64(r.Range(1, 50))), coin).String()
		default:
			ga.Balance = new(big.Int).Mul(big.NewInt(int64(r.Range(1000, 1_000_000))), coin).String()
		}
		if i < c.NVals {
			ga.Power = minStakeCoins + int64(r.Range(0, 200))
			if r.Chance(0.3) {
				ga.Power = minStakeCoins + 100 // equal powers: ties
			}
			if i == whale {
				ga.Power = 3_000_000_000 + int64(r.Intn(1_000_000))*int64(r.Range(1, 20_000))
				if cliffPower > 0 {
					ga.Power = cliffPower
				}
			}
			if c.SilentVal == i+1 {
				ga.Power = minStakeCoins // the smallest, so that the others keep more than two thirds
				ga.Balance = "0"
			} else if ga.Balance == "0" && r.Chance(0.7) {
				ga.Balance = new(big.Int).Mul(big.NewInt(int64(r.Range(1000, 100_000))), coin).String()
			}
		}
		g.Actors = append(g.Actors, ga)
	}
	return g
}

type Generator struct {
	w                     *World
	r                     *core.Rand
	c                     *Config
	outage                map[int]int // validator-set index -> remaining blocks of outage
	freshCtr              int
	enumLeft              int
	lastStakeActor        int
	pendingGenesisUnstake int
	absentNow             map[Addr]bool
	absentHist            map[Addr]int64
	curH                  int64
	followUp              *Intent // to be placed right after the intent just drawn
	govChangedPrev        int     // value of the gov.params-changed probe at the previous block
	reopenedPrev          bool // some node was reopened from its stores at the previous block boundary
	tieV, tieX            int  // boundary-tie script: the weakest validator and the candidate that ties with it (actor indexes, -1 before chosen)
	tieStage              int
}

func NewGenerator(w *World) *Generator {
	return &Generator{w: w, r: w.Rng, c: &w.Tr.Cfg, outage: map[int]int{}, enumLeft: w.Tr.Cfg.CrashEnum}
}

func (g *Generator) pickActor() int { return g.r.Intn(len(g.w.Actors)) }

func (g *Generator) richActor() int {
	m := g.w.M
	best := g.pickActor()
	for k := 0; k < 4; k++ {
		i := g.pickActor()
		if m.Balance(g.w.Actors[i].Addr).Cmp(m.Balance(g.w.Actors[best].Addr)) > 0 && g.r.Chance(0.7) {
			best = i
		}
	}
	return best
}

func (g *Generator) actorIdx(a Addr) int {
	if act, ok := g.w.ByAddr[a]; ok {
		return act.Idx
	}
	return -1
}

func (g *Generator) target() string {
	if g.c.FreshHeavy && g.r.Chance(0.75) {
		g.freshCtr++
		return fmt.Sprintf("x%d", g.freshCtr)
	}
	switch g.r.Intn(10) {
	case 0:
		g.freshCtr++
		return fmt.Sprintf("x%d", g.freshCtr)
	case 1:
		if len(g.w.M.Contracts) > 0 {
			return fmt.Sprintf("c%d", g.r.Intn(len(g.w.M.Contracts)))
		}
	case 2:
		return "z"
	}
	return fmt.Sprintf("a%d", g.pickActor())
}

var boundaryAmts = []string{"0", "n:1", "bal", "bal+1", "bal-1", "2^255-1", "2^255", "2^256-1", "bal/2"}

func (g *Generator) amount() string {
	if g.r.Chance(0.25) {
		return boundaryAmts[g.r.Intn(len(boundaryAmts))]
	}
	switch g.r.Intn(3) {
	case 0:
		return fmt.Sprintf("n:%d", g.r.Range(1, 1_000_000))
	case 1:
		return fmt.Sprintf("pow:%d", g.r.Range(1, 50))
	}
	return fmt.Sprintf("bal/%d", g.r.Range(2, 20))
}

func (g *Generator) delegateeActors() []int {
	var out []int
	for _, a := range sortedAddrs(g.w.M.Delegs) {
		if i := g.actorIdx(a); i >= 0 {
			out = append(out, i)
		}
	}
	return out
}

func (g *Generator) liveStakes() []*MStake {
	var out []*MStake
	for _, a := range sortedAddrs(g.w.M.Delegs) {
		out = append(out, g.w.M.Delegs[a].Stakes...)
	}
	return out
}

// genesisExitBusy: some genesis stake other than `self`'s is unbonding, about to be released in this
// block, or its validator has missed signatures recently (it may be jailed). Used only to avoid the
// listed finding "two genesis stakes unbonding at once share one record".
func (g *Generator) genesisExitBusy(self Addr) bool {
	if g.genesisUnbonding() > 0 || g.pendingGenesisUnstake > 0 {
		return true
	}
	m := g.w.M
	for _, a := range sortedAddrs(m.Delegs) {
		if a == self || !g.holdsGenesisStake(a) {
			continue
		}
		d := m.Delegs[a]
		for _, x := range d.Missed {
			if x >= m.H-m.Gov.SignedBlocksWindow-1 {
				return true
			}
		}
		if g.absentNow[a] {
			return true
		}
		if hh, ok := g.absentHist[a]; ok && hh >= g.curH-m.Gov.SignedBlocksWindow-2 {
			return true
		}
	}
	return false
}

func (g *Generator) holdsGenesisStake(a Addr) bool {
	if d := g.w.M.Delegs[a]; d != nil {
		for _, s := range d.Stakes {
			if s.ID == zeroHashHex {
				return true
			}
		}
	}
	return false
}

func (g *Generator) genesisUnbonding() int {
	n := 0
	for _, s := range g.w.M.Frozen {
		if s.ID == zeroHashHex {
			n++
		}
	}
	return n
}

func (g *Generator) govOption() string {
	m := g.w.M
	coin := big1e18
	type f struct{ k, v string }
	pool := []f{
		{"gasPrice", fmt.Sprint([]int64{1, 7, 20, 1_000_000_000}[g.r.Intn(4)])},
		{"minTrxGas", fmt.Sprint([]int{5, 50, 2000, 21000, 100000}[g.r.Intn(5)])},
		{"rewardPerPower", fmt.Sprint([]int64{2, 500, 1_000_000, 2_000_000_000_000_000_000}[g.r.Intn(4)])},
		{"lazyRewardBlocks", fmt.Sprint(g.r.Range(1, 9))},
		{"lazyApplyingBlocks", fmt.Sprint(g.r.Range(1, 4))},
		{"slashRatio", fmt.Sprint(g.r.Range(1, 90))},
		{"signedBlocksWindow", fmt.Sprint(g.r.Range(4, 12))},
		{"minSignedBlocks", fmt.Sprint(g.r.Range(1, 4))},
		{"maxValidatorCnt", fmt.Sprint(g.r.Range(1, int(m.Gov.MaxValidatorCnt)+2))},
		{"minValidatorStake", new(big.Int).Mul(big.NewInt(int64(g.r.Range(1, 8))), coin).String()},
		{"minVotingPeriodBlocks", fmt.Sprint(g.r.Range(1, 3))},
		{"maxVotingPeriodBlocks", fmt.Sprint(g.r.Range(4, 10))},
		{"minSelfStakeRatio", fmt.Sprint(g.r.Range(1, 60))},
	}
	if ds := sortedAddrs(m.Delegs); len(ds) > 1 && g.r.Chance(0.5) {
		// a minimum that cuts through the existing delegatees: just above or at one's own stake (never the largest)
		top, pick := int64(0), m.Delegs[ds[g.r.Intn(len(ds))]].Self()
		for _, a := range ds {
			if s := m.Delegs[a].Self(); s > top {
				top = s
			}
		}
		if v := pick + int64(g.r.Range(0, 1)); v >= 1 && v <= top && v < 1_000_000 {
			for i := range pool {
				if pool[i].k == "minValidatorStake" {
					pool[i].v = new(big.Int).Mul(big.NewInt(v), coin).String()
				}
			}
		}
	}
	if g.r.Chance(0.06) {
		// a number the decoder cannot take (not decimal, negative, beyond 256 bits, not a string)
		bad := []string{`"ten"`, `"-5"`, `"` + strings.Repeat("9", 81) + `"`, `"1e5"`, `" 7"`, `"0x10"`, `12`, `null`, `["1"]`}[g.r.Intn(9)]
		// (only the amount-typed parameters: a negative seat count or ratio is a well-formed number the
		// validation accepts, and what happens when two thirds of the validators adopt it is outside C09, S18)
		key := []string{"gasPrice", "rewardPerPower", "minValidatorStake", "minDelegatorStake"}[g.r.Intn(4)]
		return fmt.Sprintf(`{"%s":%s}`, key, bad)
	}
	if g.c.Property == "C10" && g.r.Chance(0.5) {
		for _, f := range pool {
			if (f.k == "maxValidatorCnt" || f.k == "minValidatorStake") && g.r.Chance(0.6) {
				return fmt.Sprintf("{%q:%q}", f.k, f.v)
			}
		}
	}
	n := g.r.Range(1, 3)
	perm := g.r.Perm(len(pool))[:n]
	sort.Ints(perm)
	s := "{"
	for i, pi := range perm {
		if i > 0 {
			s += ","
		}
		s += fmt.Sprintf("%q:%q", pool[pi].k, pool[pi].v)
	}
	return s + "}"
}

func (g *Generator) mutation(kind string) *Mutation {
	fields := []string{"amount", "to", "from", "from-resign", "nonce", "gas", "gasprice", "type", "time", "version", "payload", "sig", "sig", "sig", "sig", "sig"}
	if kind == "transfer" || kind == "stake" {
		fields = append(fields, "inject", "inject", "inject")
	}
	f := fields[g.r.Intn(len(fields))]
	if kind == "proposal" && g.r.Chance(0.5) {
		return &Mutation{Field: "payload", How: []string{"apply", "period", "", "opt", "msg"}[g.r.Intn(5)]}
	}
	if kind == "unstake" && g.r.Chance(0.5) {
		return &Mutation{Field: "payload", How: []string{"", "", "extend"}[g.r.Intn(3)]}
	}
	if kind == "vote" && g.r.Chance(0.4) {
		return &Mutation{Field: "payload", How: []string{"extend", "hash", ""}[g.r.Intn(3)]}
	}
	if (kind == "deploy" || kind == "call") && g.r.Chance(0.4) {
		return &Mutation{Field: "payload", How: []string{"tail", ""}[g.r.Intn(2)]}
	}
	if kind == "withdraw" && g.r.Chance(0.4) {
		return &Mutation{Field: "payload", How: []string{"w64", ""}[g.r.Intn(2)]}
	}
	mu := &Mutation{Field: f}
	switch f {
	case "sig":
		mu.How = []string{"flip", "trunc", "v", "malleate", "other", "empty", "reuse", "reuse"}[g.r.Intn(8)]
	case "payload":
		mu.How = []string{"", "msg", "opt", "apply", "period", "hash", "url", "w64", "extend"}[g.r.Intn(9)]
	case "amount", "nonce":
		mu.How = []string{"inc", "dec"}[g.r.Intn(2)]
		if f == "amount" && g.r.Chance(0.4) {
			mu.How = []string{"w64", "w128", "shl8"}[g.r.Intn(3)] // only a higher word changes / the digits move up a byte
		}
	}
	return mu
}

// intent draws one transaction intent, biased by the model state so that most are meaningful.
func (g *Generator) intent(h int64) Intent {
	m := g.w.M
	w := make([]float64, 0, 12)
	kinds := []string{"transfer", "stake", "delegate", "unstake", "withdraw", "proposal", "vote", "setdoc", "deploy", "call"}
	for _, k := range kinds {
		w = append(w, g.c.KindW[k])
	}
	k := kinds[g.r.Pick(w)]
	it := Intent{}
	switch k {
	case "transfer":
		it = Intent{Kind: "transfer", Actor: g.richActor(), To: g.target(), Amt: g.amount()}
	case "stake":
		it = Intent{Kind: "stake", Actor: g.richActor(), Amt: fmt.Sprintf("pow:%d", g.r.Range(1, 60))}
		it.To = fmt.Sprintf("a%d", it.Actor)
		g.lastStakeActor = it.Actor
	case "delegate":
		ds := g.delegateeActors()
		it = Intent{Kind: "stake", Actor: g.richActor(), Amt: fmt.Sprintf("pow:%d", g.r.Range(1, 40))}
		if len(ds) > 0 && g.r.Chance(0.9) {
			it.To = fmt.Sprintf("a%d", ds[g.r.Intn(len(ds))])
		} else {
			it.To = fmt.Sprintf("a%d", g.pickActor())
		}
	}
	if k == "delegate" && m.Gov.MinDelegatorStake.Sign() > 0 && g.r.Chance(0.25) {
		// around the minimum a delegator must bond (a parameter every replica, also a reopened one, must hold)
		it.Amt = "n:" + new(big.Int).Add(m.Gov.MinDelegatorStake, new(big.Int).Mul(big.NewInt(int64(g.r.Range(-1, 1))), big1e18)).String()
		g.w.Probes.Hit("gen.min-delegator-probe")
	}
	if k == "stake" && g.r.Chance(0.08) {
		// make the own total equal to another delegatee's total (ties in every ranking by power)
		own := int64(0)
		if d := m.Delegs[g.w.Actors[it.Actor].Addr]; d != nil {
			own = d.Total()
		}
		for _, a := range sortedAddrs(m.Delegs) {
			if t := m.Delegs[a].Total(); a != g.w.Actors[it.Actor].Addr && t > own && t-own < 1_000_000 && g.r.Chance(0.5) {
				it.Amt = fmt.Sprintf("pow:%d", t-own)
				break
			}
		}
	}
	if k == "stake" && g.r.Chance(0.12) {
		it.Amt = "n:" + new(big.Int).Add(m.Gov.MinValidatorStake, new(big.Int).Mul(big.NewInt(int64(g.r.Range(-1, 1))), big1e18)).String()
	}
	pProbe := 0.3
	if g.c.Property == "C08" || g.c.Property == "C07" {
		pProbe = 0.6
	}
	if (k == "stake" || k == "delegate") && g.w.leader().State.Validators.Size() >= 3 && g.r.Chance(pProbe) {
		// probe the staking limits: choose the power so that the delegatee's share of the validators'
		// total power lands right around one of the ratio limits (decisions there depend on parameters
		// that every replica - also a restarted one - must hold identically)
		if a, ok := g.w.resolveTarget(it.To); ok {
			base := int64(0)
			for _, v := range g.w.leader().State.NextValidators.Validators {
				base += v.VotingPower
			}
			t := int64(0)
			if d := m.Delegs[a]; d != nil {
				t = d.Total()
			}
			rs := []int64{m.Gov.MaxIndividualStakeRatio, m.Gov.MaxUpdatableStakeRatio, int64(g.r.Range(5, 60))}
			r := rs[g.r.Intn(len(rs))] + int64(g.r.Range(-2, 2))
			if r > 0 && r < 95 && base > 0 {
				d := (r*base - 100*t) / (100 - r)
				switch g.r.Intn(4) {
				case 0:
					d = r * base / 100 // the whole per-block budget of changed power
				case 1:
					d = r*base/200 + 1 // a bit more than half of it: two of these exceed it only together
				}
				d += int64(g.r.Range(-1, 1))
				if d >= 1 && d < 1_000_000 {
					it.Amt = fmt.Sprintf("pow:%d", d)
					g.w.Probes.Hit("gen.limit-probe")
					if g.r.Chance(0.5) {
						// and a small change of the same delegatee right behind it (whatever the probe left in the
						// per-block bookkeeping of the limiter meets it)
						fu := Intent{Kind: "stake", Actor: g.richActor(), To: it.To, Amt: "pow:1"}
						g.followUp = &fu
					}
				}
			}
		}
	}
	switch k {
	case "unstake":
		ls := g.liveStakes()
		if g.lastStakeActor >= 0 && g.r.Chance(0.12) {
			// release the stake this sender created earlier in this block
			a := g.lastStakeActor
			g.lastStakeActor = -1
			return Intent{Kind: "unstake", Actor: a, Stake: -2}
		}
		if len(ls) == 0 {
			return Intent{Kind: "transfer", Actor: g.richActor(), To: g.target(), Amt: "n:1"}
		}
		// never remove the last validator: an empty set is outside the property
		st := ls[g.r.Intn(len(ls))]
		if g.c.AvoidKnown && st.ID == zeroHashHex && g.genesisExitBusy(Addr{1}) {
			// listed finding: two genesis stakes unbonding at once share one record (see known_findings.json)
			return Intent{Kind: "transfer", Actor: g.richActor(), To: g.target(), Amt: "n:2"}
		}
		if st.Owner == st.To && len(m.Delegs) <= 1 {
			return Intent{Kind: "setdoc", Actor: g.pickActor(), Name: "n", URL: "u"}
		}
		it = Intent{Kind: "unstake", Stake: st.Seq}
		it.Actor = g.actorIdx(st.Owner)
		if st.ID == zeroHashHex {
			g.pendingGenesisUnstake++
		}
		if g.r.Chance(0.2) || it.Actor < 0 {
			// somebody else tries: the delegatee or a stranger
			if g.r.Chance(0.5) && g.actorIdx(st.To) >= 0 {
				it.Actor = g.actorIdx(st.To)
			} else {
				it.Actor = g.pickActor()
			}
		}
	case "withdraw":
		// prefer actors with a claim
		cand := g.pickActor()
		for _, a := range sortedAddrs(m.Claims) {
			if m.Claims[a].Sign() > 0 && g.r.Chance(0.5) {
				if i := g.actorIdx(a); i >= 0 {
					cand = i
					break
				}
			}
		}
		it = Intent{Kind: "withdraw", Actor: cand, Amt: []string{"claim", "claim", "claim/2", "claim/3", "claim+1", "0", "n:1", "claim-1"}[g.r.Intn(8)]}
		if g.r.Chance(0.2) {
			it.To = g.target() // a receiver field other than the sender
		}
	case "proposal":
		// by a validator most of the time
		vals := g.w.leader().State.NextValidators.Validators
		act := g.pickActor()
		if len(vals) > 0 && g.r.Chance(0.85) {
			if i := g.actorIdx(ToAddr(vals[g.r.Intn(len(vals))].Address)); i >= 0 {
				act = i
			}
		}
		it = Intent{Kind: "proposal", Actor: act, Start: int64(g.r.Range(1, 3)),
			Period: int64(g.r.Range(int(m.Gov.MinVotingPeriodBlocks), int(m.Gov.MinVotingPeriodBlocks)+2)), Apply: int64(g.r.Range(0, 2))}
		if it.Period > m.Gov.MaxVotingPeriodBlocks {
			it.Period = m.Gov.MaxVotingPeriodBlocks
		}
		n := g.r.Range(1, 2)
		for i := 0; i < n; i++ {
			it.Opts = append(it.Opts, g.govOption())
		}
		if g.r.Chance(0.1) {
			it.OptType = 0x0200
			it.Opts = []string{"yes", "no"}
		}
		if g.r.Chance(g.c.PInvalid * 0.5) {
			switch g.r.Intn(4) {
			case 0:
				it.Start = 0
			case 1:
				it.Period = m.Gov.MaxVotingPeriodBlocks + 1
			case 2:
				it.Apply = -1
			case 3:
				it.Period = 0
			}
		}
	case "vote":
		var open []int
		for i, id := range m.PropOrder {
			if _, ok := m.Props[id]; ok {
				open = append(open, i)
			}
		}
		if len(open) == 0 {
			return Intent{Kind: "transfer", Actor: g.richActor(), To: g.target(), Amt: "n:3"}
		}
		pi := open[g.r.Intn(len(open))]
		p := m.Props[m.PropOrder[pi]]
		act := g.pickActor()
		voters := sortedAddrs(p.Voters)
		if len(voters) > 0 && g.r.Chance(0.9) {
			if i := g.actorIdx(voters[g.r.Intn(len(voters))]); i >= 0 {
				act = i
			}
		}
		ch := int32(g.r.Intn(len(p.Options)))
		if g.r.Chance(0.7) {
			ch = 0 // concentrate votes so that majorities are reached
		}
		if g.r.Chance(0.05) {
			ch = int32(len(p.Options))
		}
		it = Intent{Kind: "vote", Actor: act, Prop: pi, Choice: ch}
	case "setdoc":
		it = Intent{Kind: "setdoc", Actor: g.richActor(), Name: fmt.Sprintf("name%d", g.r.Intn(100)), URL: fmt.Sprintf("https://d/%d", g.r.Intn(100))}
		switch g.r.Intn(20) {
		case 0:
			it.Name = string(make([]byte, 2049))
		case 1:
			it.URL = "https://d/" + strings.Repeat("u", 2040) // too long, beside an acceptable new name
		case 2, 3:
			it.URL = "" // one field empty
		case 4, 5:
			it.Name = ""
		case 7:
			it.URL = "https://d/" + strings.Repeat("u", []int{2037, 2038, 2039}[g.r.Intn(3)]) // 2047, 2048, 2049 bytes
		case 8:
			it.Name = strings.Repeat("n", []int{2047, 2048}[g.r.Intn(2)])
		case 6:
			// within the limit counted in characters, beyond it counted in bytes
			it.Name = strings.Repeat("\ud55c", []int{682, 1024, 2048}[g.r.Intn(3)])
		}
	case "deploy":
		code, _ := g.program()
		it = Intent{Kind: "deploy", Actor: g.richActor(), Data: hex.EncodeToString(code), Gas: fmt.Sprintf("n:%d", g.r.Range(100_000, 1_500_000))}
		if g.r.Chance(0.3) {
			it.Amt = fmt.Sprintf("n:%d", g.r.Range(1, 1_000_000))
		}
		if g.r.Chance(0.08) {
			// a payload of more than 8 KiB (dead bytes behind the init code): whatever treats long inputs differently
			it.Data = hex.EncodeToString(append(code, make([]byte, g.r.Range(8300, 12000))...))
			it.Gas = "n:2400000"
		}
	case "call":
		if len(m.Contracts) == 0 {
			code, _ := g.program()
			return Intent{Kind: "deploy", Actor: g.richActor(), Data: hex.EncodeToString(code), Gas: "n:1200000"}
		}
		ci := g.r.Intn(len(m.Contracts))
		it = Intent{Kind: "call", Actor: g.richActor(), To: fmt.Sprintf("c%d", ci), Data: hex.EncodeToString(g.calldata()), Gas: fmt.Sprintf("n:%d", g.r.Range(30_000, 800_000))}
		if g.r.Chance(0.5) {
			it.Amt = fmt.Sprintf("n:%d", g.r.Range(1, 5_000_000))
		}
		if g.r.Chance(0.04) {
			// a gas-hungry call (loop flag set): the block gas pool must be whole again in the next block
			d := g.calldata()
			if len(d) >= 5*32 {
				d[5*32-1] = 1
				it.Data = hex.EncodeToString(d)
				it.Gas = fmt.Sprintf("n:%d", g.r.Range(6_000_000, 20_000_000))
			}
		}
		if g.r.Chance(0.15) {
			// a plain transfer to the contract address
			it.Kind = "transfer"
			it.Data = ""
			if g.r.Chance(0.4) {
				// with a native-sized gas limit (below the EVM's intrinsic gas unless governance set it higher)
				it.Gas = []string{"min", "n:10000", "n:20999", "n:21000"}[g.r.Intn(4)]
			}
		}
		if g.r.Chance(0.05) {
			it.To = fmt.Sprintf("a%d", g.pickActor()) // contract tx to a plain account
		}
		if n := len(m.InnerList); n > 0 && g.r.Chance(0.15) {
			// a contract created by a contract
			it.To = fmt.Sprintf("i%d", g.r.Intn(n))
			if g.c.AvoidKnown && it.Kind == "transfer" {
				// listed finding: plain transfer to an inner-created contract bypasses the EVM
				it.Kind = "call"
			}
		}
	}
	// generic invalidations
	if g.r.Chance(g.c.PInvalid) {
		switch g.r.Intn(8) {
		case 7:
			// a receiver field that is an existing account's address followed by extra bytes
			if it.Kind == "transfer" || it.Kind == "stake" || it.Kind == "call" {
				a := g.w.Actors[g.pickActor()].Addr
				it.ToRaw = hex.EncodeToString(append(a.Bytes(), g.r.Bytes(g.r.Range(1, 12))...))
			}
		case 0:
			it.Nonce = []int{1, -1, 2, 5}[g.r.Intn(4)]
		case 1:
			it.Gas = []string{"min-1", "0", "n:1", "n:30000000", "n:25000001", "n:80000000", "n:20000000000", "n:9000000000000000000"}[g.r.Intn(8)]
		case 2:
			it.Price = []string{"gov+1", "gov-1", "0", "max"}[g.r.Intn(4)]
		case 3:
			if it.Kind == "transfer" || it.Kind == "stake" || it.Kind == "call" || it.Kind == "deploy" {
				it.Amt = []string{"bal+1", "2^255", "2^256-1", "2^255-1"}[g.r.Intn(4)]
			}
			if it.Kind == "setdoc" || it.Kind == "unstake" || it.Kind == "vote" || it.Kind == "proposal" {
				// an amount near 2^255 on a tx type that moves none, preferably from a sender who cannot pay the fee
				it.Amt = []string{"2^255-1", "2^255", "n:1", "2^256-1"}[g.r.Intn(4)]
				if g.r.Chance(0.5) {
					for i, a := range g.w.Actors {
						if m.Balance(a.Addr).Sign() == 0 && (it.Kind == "setdoc") {
							it.Actor = i
							break
						}
					}
				}
			}
		case 4:
			if it.Kind == "stake" {
				it.Amt = []string{"n:1", "n:999999999999999999", "n:1500000000000000000", "0"}[g.r.Intn(4)]
			}
		case 5:
			it.Actor = g.pickActor()
		case 6:
			if it.Kind == "stake" {
				g.freshCtr++
				it.To = fmt.Sprintf("x%d", g.freshCtr)
			}
		}
	}
	if g.c.PTamper > 0 && g.r.Chance(g.c.PTamper) {
		if g.r.Chance(0.15) {
			if g.r.Chance(0.4) {
				it.EmptyChain = true
			} else {
				it.WrongChain = true
			}
		} else {
			it.Mut = g.mutation(it.Kind)
		}
		it.Nonce, it.Gas, it.Price = 0, "", ""
	}
	if g.r.Chance(g.c.PDup) {
		it.Repeat = g.r.Range(1, 2)
	}
	return it
}

// hostileValid: a well-formed, correctly signed tx of a funded sender with unusual field values.
func (g *Generator) hostileValid(h int64) Intent {
	ds := g.delegateeActors()
	hexOf := func(n int) *string { s := hex.EncodeToString(g.r.Bytes(n)); return &s }
	switch g.r.Intn(7) {
	case 0:
		return Intent{Kind: "setdoc", Actor: g.richActor(), Name: "", URL: ""}
	case 1:
		it := Intent{Kind: "unstake", Actor: g.richActor(), Stake: -1, IDHex: hexOf([]int{0, 0, 1, 31, 33, 64}[g.r.Intn(6)])}
		if len(ds) > 0 {
			it.To = fmt.Sprintf("a%d", ds[g.r.Intn(len(ds))])
		}
		return it
	case 2:
		return Intent{Kind: "vote", Actor: g.richActor(), Prop: -1, IDHex: hexOf([]int{0, 0, 5, 33}[g.r.Intn(4)]), Choice: int32(g.r.Intn(3)) - 1}
	case 3:
		return Intent{Kind: "withdraw", Actor: g.richActor(), Amt: []string{"0", "2^255", "2^256-1"}[g.r.Intn(3)]}
	case 4:
		act := g.richActor()
		if vals := g.w.leader().State.NextValidators.Validators; len(vals) > 0 {
			if i := g.actorIdx(ToAddr(vals[g.r.Intn(len(vals))].Address)); i >= 0 {
				act = i
			}
		}
		return Intent{Kind: "proposal", Actor: act, Start: 1, Period: g.w.M.Gov.MinVotingPeriodBlocks,
			OptType: []int32{0, 0x0101, 0x0200, 0x0200, 0x0100, 7, -1}[g.r.Intn(7)],
			Opts:    [][]string{{}, {}, {""}, {"{"}, {"[]"}, {"{\"gasPrice\":-1}"}, {"{\"gasPrice\":{}}"}, {"null"}}[g.r.Intn(8)]}
	case 5:
		return Intent{Kind: "call", Actor: g.richActor(), To: "z", Data: ""}
	default:
		return Intent{Kind: "deploy", Actor: g.richActor(), Data: "", Gas: "n:100000"}
	}
}

func (g *Generator) garbage(h int64) Intent {
	w := g.w
	if g.r.Chance(0.3) {
		return g.hostileValid(h)
	}
	switch g.r.Intn(6) {
	case 0:
		return Intent{Kind: "raw", Raw: hex.EncodeToString(g.r.Bytes(g.r.Range(0, 80)))}
	case 1, 2:
		// corrupt a valid encoding: truncate or flip
		if len(w.History) > 0 {
			b := append([]byte(nil), w.History[g.r.Intn(len(w.History))]...)
			if len(b) > 2 {
				if g.r.Chance(0.5) {
					b = b[:g.r.Range(1, len(b)-1)]
				} else {
					for k := 0; k < g.r.Range(1, 3); k++ {
						b[g.r.Intn(len(b))] ^= byte(1 << uint(g.r.Intn(8)))
					}
				}
			}
			return Intent{Kind: "raw", Raw: hex.EncodeToString(b)}
		}
		return Intent{Kind: "raw", Raw: "00"}
	case 3:
		// valid envelope, hostile fields, signed by an unknown (unfunded, never seen) key
		return Intent{Kind: "raw", Raw: hex.EncodeToString(g.hostileEnvelope(h))}
	case 4:
		it := g.intent(h)
		it.To = []string{"h:", "h:00", "h:" + hex.EncodeToString(g.r.Bytes(19)), "h:" + hex.EncodeToString(g.r.Bytes(21)), "h:" + hex.EncodeToString(g.r.Bytes(32))}[g.r.Intn(5)]
		return it
	default:
		it := g.intent(h)
		it.Gas = []string{"0", "max", "2^63"}[g.r.Intn(3)]
		return it
	}
}

// NextBlock draws the next block step (explore mode only).
func (g *Generator) NextBlock(h int64) BlockStep {
	w := g.w
	c := g.c
	g.pendingGenesisUnstake = 0
	g.lastStakeActor = -1
	g.absentNow = map[Addr]bool{}
	if g.absentHist == nil {
		g.absentHist = map[Addr]int64{}
	}
	g.curH = h
	st := BlockStep{Proposer: -1, DtMs: int64(g.r.Range(200, 5000))}
	if g.r.Chance(c.PTimeJump) {
		st.DtMs = int64(g.r.Range(3600_000, 40*86400_000))
	}
	if g.r.Chance(0.15) {
		st.Proposer = g.r.Intn(8)
	}
	vals := w.leader().State.Validators
	n := vals.Size()
	// absences / outages (the commit keeps > 2/3 power; enforced at execution)
	for i := 0; i < n; i++ {
		if c.AvoidKnown && g.holdsGenesisStake(ToAddr(vals.Validators[i].Address)) && g.genesisExitBusy(ToAddr(vals.Validators[i].Address)) {
			g.outage[i] = 0
			continue
		}
		va := ToAddr(vals.Validators[i].Address)
		if c.SilentVal > 0 && g.actorIdx(va) == c.SilentVal-1 {
			st.Absent = append(st.Absent, i)
			g.absentNow[va] = true
			g.absentHist[va] = h
			continue
		}
		if g.outage[i] > 0 {
			g.outage[i]--
			st.Absent = append(st.Absent, i)
			g.absentNow[va] = true
			g.absentHist[va] = h
			continue
		}
		if g.r.Chance(c.POutage) {
			g.outage[i] = g.r.Range(2, 8)
			st.Absent = append(st.Absent, i)
			g.absentNow[va] = true
			g.absentHist[va] = h
		} else if g.r.Chance(c.PAbsent / float64(n)) {
			st.Absent = append(st.Absent, i)
			g.absentNow[va] = true
			g.absentHist[va] = h
		}
	}
	if g.r.Chance(0.2) {
		for i := 0; i < n; i++ {
			st.SkewMs = append(st.SkewMs, int64(g.r.Intn(2000)))
		}
	}
	if h >= 3 && g.r.Chance(c.PEvidence) {
		ne := 1
		if g.r.Chance(0.2) {
			ne = 2
		}
		for k := 0; k < ne; k++ {
			es := EvSpec{Height: int64(g.r.Range(1, 3))}
			if g.r.Chance(0.75) && n > 0 {
				es.Actor = g.actorIdx(ToAddr(vals.Validators[g.r.Intn(n)].Address))
			} else {
				es.Actor = g.pickActor() // possibly not a validator (unknown / removed)
			}
			if es.Actor >= 0 {
				st.Evidence = append(st.Evidence, es)
			}
		}
	}
	// transactions
	nt := g.r.Geometric(c.TxMean)
	if nt > 24 {
		nt = 24
	}
	bootstrapQuiet := h <= 3
	for i := 0; i < nt; i++ {
		var it Intent
		if c.PGarbage > 0 && g.r.Chance(c.PGarbage) {
			it = g.garbage(h)
		} else if len(w.History) > 0 && g.r.Chance(c.PReplay) {
			it = Intent{Kind: "replay", Replay: g.r.Intn(len(w.History))}
			if c.Property == "C04" && (it.Replay+int(h))%3 == 0 {
				// (no extra draw) the old bytes with the nonce field rewritten to the currently expected one
				it.Mut = &Mutation{Field: "nonce", How: "cur"}
			}
		} else {
			it = g.intent(h)
		}
		if bootstrapQuiet && (it.Kind == "stake" || it.Kind == "unstake") {
			// keep the bootstrap window (validator power derived from genesis) free of stake changes
			it = Intent{Kind: "transfer", Actor: g.richActor(), To: g.target(), Amt: g.amount()}
		}
		st.Txs = append(st.Txs, it)
		if g.followUp != nil {
			if !bootstrapQuiet {
				st.Txs = append(st.Txs, *g.followUp)
			}
			g.followUp = nil
		}
	}
	pPark := 0.15
	if w.Probes.C["gov.params-changed"] > g.govChangedPrev {
		pPark = 0.85 // right after the parameters changed: what was admitted under the old ones arrives now
	}
	if len(w.Parked) > 0 && !bootstrapQuiet && g.r.Chance(pPark) {
		// a tx that passed a mempool check some blocks ago reaches a block now
		i := g.r.Intn(len(w.Parked))
		st.Txs = append(st.Txs, Intent{Kind: "bytes", Raw: w.Parked[i]})
		w.Parked = append(w.Parked[:i], w.Parked[i+1:]...)
		w.Probes.Hit("gen.parked-tx-delivered")
	}
	if !bootstrapQuiet && g.r.Chance(0.04) {
		// the same delegatee record deleted and created again more than once inside one block
		st.Txs = append(st.Txs, g.churn()...)
	}
	if g.reopenedPrev && !bootstrapQuiet {
		st.Txs = append(st.Txs, g.reopenProbes()...)
	}
	var tieSides []Side
	if c.BoundaryTie && h >= 5 {
		var front []Intent
		front, tieSides = g.boundaryTie()
		st.Txs = append(front, st.Txs...)
	}
	g.reopenedPrev = false
	if bootstrapQuiet {
		st.Evidence = nil
	}
	// side traffic on noisy replicas (replica index >= 1)
	npl := 0
	for _, it := range st.Txs {
		npl += 1 + it.Repeat
	}
	points := []string{"pre", "bb.pre", "bb"}
	for i := 0; i < npl; i++ {
		points = append(points, fmt.Sprintf("tx:%d", i))
	}
	points = append(points, "eb", "commit.pre", "commit.post", "mp.update", "end")
	if c.Noisy && (len(w.Reps) > 1 || c.NoisyLeader) {
		lo, hi := 1, len(w.Reps)
		if c.NoisyLeader {
			lo, hi = 0, 1
		}
		for ri := lo; ri < hi; ri++ {
			for _, pt := range points {
				locked := pt == "commit.pre" || pt == "commit.post" || pt == "mp.update"
				if !locked {
					for k := g.r.Geometric(c.SideMean); k > 0; k-- {
						s := Side{Replica: ri, At: pt, Kind: "check"}
						if npl > 0 && g.r.Chance(0.4) {
							s.BlockTx = 1 + g.r.Intn(npl)
							s.Twin = g.r.Chance(0.35)
						} else if c.PGarbage > 0 && g.r.Chance(c.PGarbage) {
							it := g.garbage(h)
							s.Intent = &it
						} else {
							it := g.intent(h)
							it.Repeat = 0
							g.followUp = nil
							s.Intent = &it
						}
						st.Sides = append(st.Sides, s)
					}
				}
				for k := g.r.Geometric(c.QueryMean); k > 0; k-- {
					st.Sides = append(st.Sides, g.query(ri, pt, h))
				}
				if g.r.Chance(0.02) || (h <= 2 && g.r.Chance(0.1)) {
					st.Sides = append(st.Sides, Side{Replica: ri, At: pt, Kind: "info"})
				}
			}
		}
	}
	st.Sides = append(st.Sides, tieSides...)
	// faults
	if c.PRestartL > 0 && (g.r.Chance(c.PRestartL) || (c.Property == "C10" && w.Probes.C["gov.params-changed"] > g.govChangedPrev && g.r.Chance(0.4))) {
		st.Faults = append(st.Faults, Fault{Kind: "restart", Replica: 0, At: "end"})
	}
	govJustChanged := w.Probes.C["gov.params-changed"] > g.govChangedPrev
	g.govChangedPrev = w.Probes.C["gov.params-changed"]
	for ri := 1; ri < len(w.Reps); ri++ {
		if g.r.Chance(c.PRestart) || (govJustChanged && c.PRestart > 0 && g.r.Chance(0.5)) {
			st.Faults = append(st.Faults, Fault{Kind: "restart", Replica: ri, At: "end"})
		} else if g.r.Chance(c.PLag) {
			st.Faults = append(st.Faults, Fault{Kind: "lag", Replica: ri})
		}
	}
	// (block 1 included now and then: a crash before the first commit loses the genesis state held in memory,
	// the engine must initialise the chain again)
	// the enumerated blocks are spread over the whole history (a late crash meets more accumulated state)
	pEnum := 2.2 * float64(g.enumLeft) / float64(int64(c.Blocks)-h+1)
	if g.enumLeft > 0 && (h >= 4 || g.r.Chance(0.15)) && (nt > 0 || g.r.Chance(0.3)) && g.r.Chance(pEnum) {
		g.enumLeft--
		replayPts := []string{"bb", "eb", "commit.pre", "commit.post", "cw:13"}
		if npl > 0 {
			replayPts = append(replayPts, "tx:0")
		}
		for _, pt := range points {
			f := Fault{Kind: "crashfork", Replica: 0, At: pt, Follow: 2}
			if pt == "pre" || pt == "commit.post" || pt == "end" {
				f.Follow = 14 // some effects of a lossy recovery only surface at the next reward-hash height
			}
			if g.c.CrashAgain && pt != "commit.post" && pt != "mp.update" && pt != "end" && g.r.Chance(0.5) {
				// the interrupted block will be replayed on recovery: crash again inside that replay
				f.Again = replayPts[g.r.Intn(len(replayPts))]
			}
			st.Faults = append(st.Faults, f)
		}
		for k := 1; k <= 16; k++ {
			st.Faults = append(st.Faults, Fault{Kind: "crashfork", Replica: 0, At: fmt.Sprintf("cw:%d", k), Follow: 2})
		}
	} else if c.PCrash > 0 && g.r.Chance(c.PCrash) {
		// a crash at an ABCI boundary of some replica (the points inside Commit are C08's enumeration)
		pt := points[g.r.Intn(len(points))]
		st.Faults = append(st.Faults, Fault{Kind: "crashfork", Replica: g.r.Intn(len(w.Reps)), At: pt, Follow: 3})
	}
	for _, f := range st.Faults {
		if f.Kind == "restart" || f.Kind == "crashfork" {
			g.reopenedPrev = true
		}
	}
	return st
}

var queryPaths = []string{"account", "account", "delegatee", "stakes", "stakes/total_power", "stakes/voting_power", "reward", "proposal", "gov_params", "unknown/path", "vm_call"}

func (g *Generator) query(ri int, pt string, h int64) Side {
	s := Side{Replica: ri, At: pt, Kind: "query"}
	s.Path = queryPaths[g.r.Intn(len(queryPaths))]
	if g.c.EVM && len(g.w.M.Contracts) > 0 && g.r.Chance(0.25) {
		s.Path = "vm_call"
	}
	switch g.r.Intn(6) {
	case 0:
		s.QHeight = 0
	case 1:
		s.QHeight = int64(g.r.Range(1, int(h)+2))
	default:
		s.QHeight = -int64(g.r.Intn(5))
		if s.QHeight == 0 {
			s.QHeight = 0
		}
	}
	switch s.Path {
	case "proposal":
		if len(g.w.M.PropOrder) > 0 && g.r.Chance(0.8) {
			s.QData = fmt.Sprintf("p%d", g.r.Intn(len(g.w.M.PropOrder)))
		}
	case "gov_params", "stakes/total_power", "stakes/voting_power":
	case "vm_call":
		if g.c.PGarbage > 0 || len(g.w.M.Contracts) == 0 {
			s.QData = "h:" + hex.EncodeToString(g.r.Bytes(g.r.Range(0, 60)))
		} else {
			from := g.w.Actors[g.pickActor()].Addr
			to := g.w.M.Contracts[g.r.Intn(len(g.w.M.Contracts))]
			s.QData = "h:" + hex.EncodeToString(append(append(from.Bytes(), to.Bytes()...), g.calldata()...))
		}
	default:
		s.QData = g.target()
	}
	if g.c.PGarbage > 0 && g.r.Chance(0.3) {
		s.QData = "h:" + hex.EncodeToString(g.r.Bytes(g.r.Range(0, 50)))
		s.QHeight = []int64{-9_000_000_000_000_000, 0, 1 << 62, int64(h) + 5, 1}[g.r.Intn(5)]
	}
	return s
}


// reopenProbes: transactions for the block right after some node was reopened from its stores (stop/start
// or crash recovery). They sit at decisions that depend on parameters and sets a controller may hold in
// memory only - minimum stakes, minimum/maximum gas and price, the staking ratio limits, who is a validator
// (proposals), live stakes and claims - so that a node whose rebuilt memory differs from the memory of a node
// that kept running answers differently inside a real block.
func (g *Generator) reopenProbes() []Intent {
	w := g.w
	m := w.M
	coin := big1e18
	var its []Intent
	rich := func(skip int) int {
		best := -1
		for i, a := range w.Actors {
			if i == skip {
				continue
			}
			if best < 0 || m.Balance(a.Addr).Cmp(m.Balance(w.Actors[best].Addr)) > 0 {
				best = i
			}
		}
		return best
	}
	amt := func(base *big.Int, dCoins int64) string {
		v := new(big.Int).Add(base, new(big.Int).Mul(big.NewInt(dCoins), coin))
		if v.Sign() < 0 {
			v.SetInt64(0)
		}
		return "n:" + v.String()
	}
	delegs := sortedAddrs(m.Delegs)
	isDeleg := map[int]bool{}
	var dIdx []int
	for _, a := range delegs {
		if act, ok := w.ByAddr[a]; ok {
			isDeleg[act.Idx] = true
			dIdx = append(dIdx, act.Idx)
		}
	}
	base := int64(0)
	for _, v := range w.leader().State.NextValidators.Validators {
		base += v.VotingPower
	}
	if len(dIdx) > 0 {
		d := dIdx[g.r.Intn(len(dIdx))]
		if from := rich(d); from >= 0 {
			to := fmt.Sprintf("a%d", d)
			if m.Gov.MinDelegatorStake.Sign() > 0 {
				its = append(its, Intent{Kind: "stake", Actor: from, To: to, Amt: amt(m.Gov.MinDelegatorStake, -1)})
			}
			its = append(its, Intent{Kind: "stake", Actor: from, To: to, Amt: "pow:1"})
			t := m.Delegs[w.Actors[d].Addr].Total()
			for _, ratio := range []int64{m.Gov.MaxIndividualStakeRatio, m.Gov.MaxUpdatableStakeRatio} {
				if ratio > 0 && ratio < 95 && base > 0 {
					if p := (ratio*base-100*t)/(100-ratio) + int64(g.r.Range(-1, 1)); p >= 1 && p < 1_000_000_000 {
						its = append(its, Intent{Kind: "stake", Actor: from, To: to, Amt: fmt.Sprintf("pow:%d", p)})
					}
					if p := ratio*base/100 + int64(g.r.Range(-1, 1)); p >= 1 && p < 1_000_000_000 && g.r.Chance(0.5) {
						its = append(its, Intent{Kind: "stake", Actor: from, To: to, Amt: fmt.Sprintf("pow:%d", p)})
					}
				}
			}
		}
	}
	for i := range w.Actors {
		if !isDeleg[i] && m.Balance(w.Actors[i].Addr).Cmp(m.Gov.MinValidatorStake) > 0 {
			its = append(its, Intent{Kind: "stake", Actor: i, To: fmt.Sprintf("a%d", i), Amt: amt(m.Gov.MinValidatorStake, int64(g.r.Range(-1, 0)))})
			break
		}
	}
	if a := rich(-1); a >= 0 {
		to := fmt.Sprintf("a%d", rich(a))
		gs := []string{"min-1", "min", fmt.Sprintf("n:%d", m.Gov.MaxTrxGas), fmt.Sprintf("n:%d", m.Gov.MaxTrxGas+1)}
		its = append(its, Intent{Kind: "transfer", Actor: a, To: to, Amt: "n:1", Gas: gs[g.r.Intn(len(gs))]})
		its = append(its, Intent{Kind: "transfer", Actor: a, To: to, Amt: "n:1", Price: []string{"gov+1", "gov-1"}[g.r.Intn(2)]})
	}
	// a proposal by a validator and one by somebody who is none
	vals := w.leader().State.Validators.Validators
	if len(vals) > 0 {
		if act, ok := w.ByAddr[ToAddr(vals[g.r.Intn(len(vals))].Address)]; ok {
			its = append(its, Intent{Kind: "proposal", Actor: act.Idx, Start: 2, Period: m.Gov.MinVotingPeriodBlocks, Opts: []string{g.govOption()}})
		}
	}
	for i, a := range w.Actors {
		inSet := false
		for _, v := range vals {
			if ToAddr(v.Address) == a.Addr {
				inSet = true
			}
		}
		if !inSet {
			its = append(its, Intent{Kind: "proposal", Actor: i, Start: 2, Period: m.Gov.MinVotingPeriodBlocks, Opts: []string{`{"gasPrice":"7"}`}})
			break
		}
	}
	for _, a := range sortedAddrs(m.Claims) {
		if act, ok := w.ByAddr[a]; ok && m.Claims[a].Sign() > 0 {
			its = append(its, Intent{Kind: "withdraw", Actor: act.Idx, Amt: []string{"claim", "claim+1"}[g.r.Intn(2)]})
			break
		}
	}
	// keep the block small: a random half
	var out []Intent
	for _, it := range its {
		if g.r.Chance(0.5) {
			out = append(out, it)
		}
	}
	if len(out) > 0 {
		w.Probes.Hit("gen.reopen-probes")
	}
	return out
}


// churn: one actor makes its delegatee record disappear and reappear repeatedly within a block: release the only
// own stake (if it is a lone self-staker), stake, release that, stake, release that.
func (g *Generator) churn() []Intent {
	m := g.w.M
	var out []Intent
	actor := -1
	for _, a := range sortedAddrs(m.Delegs) {
		d := m.Delegs[a]
		if len(d.Stakes) == 1 && d.Stakes[0].Owner == a && d.Stakes[0].ID != zeroHashHex && len(m.Delegs) > 1 {
			if i := g.actorIdx(a); i >= 0 && g.r.Chance(0.5) {
				actor = i
				out = append(out, Intent{Kind: "unstake", Actor: i, Stake: d.Stakes[0].Seq})
				break
			}
		}
	}
	if actor < 0 {
		for k := 0; k < 6 && actor < 0; k++ {
			i := g.richActor()
			if m.Delegs[g.w.Actors[i].Addr] == nil {
				actor = i
			}
		}
	}
	if actor < 0 {
		return nil
	}
	to := fmt.Sprintf("a%d", actor)
	for k := g.r.Range(1, 2); k > 0; k-- {
		out = append(out, Intent{Kind: "stake", Actor: actor, To: to, Amt: fmt.Sprintf("pow:%d", g.r.Range(5, 40))}, Intent{Kind: "unstake", Actor: actor, Stake: -2})
	}
	g.w.Probes.Hit("gen.churn")
	return out
}

// boundaryTie is the script of the Config.BoundaryTie worlds. It returns txs to be placed at the front of the block
// and mempool checks for the noisy replicas. Stage 0: somebody delegates to the weakest validator V (it owns two
// stakes from now on). Stage 1: a rich actor X that is no delegatee stakes to itself exactly V's total power: a
// candidate that ties with the last seated validator, with fewer stakes. From then on, in turns: a block in which a
// noisy replica checks stake txs right after BeginBlock and whose first tx changes the power of a tied delegatee; a
// block that restores the tie.
func (g *Generator) boundaryTie() (front []Intent, sides []Side) {
	w, m := g.w, g.w.M
	const d = 3
	other := func(not ...int) int {
		for k := 0; k < 20; k++ {
			i := g.richActor()
			ok := true
			for _, n := range not {
				ok = ok && i != n
			}
			if ok {
				return i
			}
		}
		return -1
	}
	switch g.tieStage {
	case 0:
		g.tieV, g.tieX = -1, -1
		vals := w.leader().State.Validators.Validators
		var best *MDeleg
		for _, v := range vals {
			if dl := m.Delegs[ToAddr(v.Address)]; dl != nil && g.actorIdx(dl.Addr) >= 0 && (best == nil || dl.Total() < best.Total()) {
				best = dl
			}
		}
		if best == nil || len(vals) < 3 {
			return nil, nil
		}
		g.tieV = g.actorIdx(best.Addr)
		// the candidate: no delegatee yet, rich enough; preferably with an address above V's (the two rankings then disagree)
		need := new(big.Int).Mul(big.NewInt(best.Total()+d+50), big1e18)
		for pass := 0; pass < 2 && g.tieX < 0; pass++ {
			for i, a := range w.Actors {
				if m.Delegs[a.Addr] == nil && i != g.tieV && m.Balance(a.Addr).Cmp(need) > 0 && (pass == 1 || bytes.Compare(a.Addr[:], best.Addr[:]) > 0) {
					g.tieX = i
					break
				}
			}
		}
		from := other(g.tieX, g.tieV)
		if g.tieX < 0 || from < 0 {
			return nil, nil
		}
		g.tieStage = 1
		w.Probes.Hit("gen.boundary-tie.setup")
		return []Intent{{Kind: "stake", Actor: from, To: fmt.Sprintf("a%d", g.tieV), Amt: fmt.Sprintf("pow:%d", d)}}, nil
	case 1:
		dv := m.Delegs[w.Actors[g.tieV].Addr]
		if dv == nil || m.Delegs[w.Actors[g.tieX].Addr] != nil {
			g.tieStage = 0
			return nil, nil
		}
		g.tieStage = 2
		return []Intent{{Kind: "stake", Actor: g.tieX, To: fmt.Sprintf("a%d", g.tieX), Amt: fmt.Sprintf("pow:%d", dv.Total())}}, nil
	}
	dv, dx := m.Delegs[w.Actors[g.tieV].Addr], m.Delegs[w.Actors[g.tieX].Addr]
	if dv == nil || dx == nil {
		g.tieStage = 0
		return nil, nil
	}
	tv, tx := dv.Total(), dx.Total()
	from := other(g.tieX, g.tieV)
	if from < 0 {
		return nil, nil
	}
	switch {
	case tv == tx && len(w.Reps) > 1:
		// the tie stands: mempool checks of stake txs right after BeginBlock, then a change of a tied delegatee
		w.Probes.Hit("gen.boundary-tie.probe")
		for _, to := range []int{g.tieV, g.tieX}[:1+g.r.Intn(2)] {
			if chk := other(g.tieX, g.tieV, from); chk >= 0 {
				it := Intent{Kind: "stake", Actor: chk, To: fmt.Sprintf("a%d", to), Amt: "pow:1"}
				sides = append(sides, Side{Replica: 1 + g.r.Intn(len(w.Reps)-1), At: []string{"bb", "bb", "tx:0"}[g.r.Intn(3)], Kind: "check", Intent: &it})
			}
		}
		to := []int{g.tieV, g.tieV, g.tieX}[g.r.Intn(3)]
		front = append(front, Intent{Kind: "stake", Actor: from, To: fmt.Sprintf("a%d", to), Amt: fmt.Sprintf("pow:%d", d)})
		if g.r.Chance(0.7) {
			// and a second change (the candidate overtakes the last seat) that the per-block budget admits only if the
			// first one was booked as a change of a seated validator
			front = append(front, Intent{Kind: "stake", Actor: from, To: fmt.Sprintf("a%d", g.tieX), Amt: fmt.Sprintf("pow:%d", d+1+g.r.Intn(3))})
		}
	case tv > tx && tv-tx < 1000:
		front = append(front, Intent{Kind: "stake", Actor: from, To: fmt.Sprintf("a%d", g.tieX), Amt: fmt.Sprintf("pow:%d", tv-tx)})
	case tx > tv && tx-tv < 1000:
		front = append(front, Intent{Kind: "stake", Actor: from, To: fmt.Sprintf("a%d", g.tieV), Amt: fmt.Sprintf("pow:%d", tx-tv)})
	}
	return front, sides
}
