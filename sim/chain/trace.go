package chain

import (
	"encoding/json"
	"os"
	"path/filepath"
)

// A Trace is a complete, self-contained workload + schedule + fault sequence. It is produced while
// a world is explored (every decision is appended) and it is the replay file: executing a trace
// consults no PRNG at all.

type Config struct {
	Property    string             `json:"property"`
	Blocks      int                `json:"blocks"`
	NActors     int                `json:"nActors"`
	NVals       int                `json:"nVals"`
	TxMean      float64            `json:"txMean"`
	KindW       map[string]float64 `json:"kindW"`
	PInvalid    float64            `json:"pInvalid"`
	PAbsent     float64            `json:"pAbsent"`
	POutage     float64            `json:"pOutage"`
	PEvidence   float64            `json:"pEvidence"`
	PTimeJump   float64            `json:"pTimeJump"`
	PTamper     float64            `json:"pTamper"`
	PGarbage    float64            `json:"pGarbage"`
	PDup        float64            `json:"pDup"`
	PReplay     float64            `json:"pReplay"`
	Followers   int                `json:"followers"`
	Noisy       bool               `json:"noisy"`
	NoisyLeader bool               `json:"noisyLeader,omitempty"` // the side traffic goes to the block producer (the model's reference), followers stay quiet
	SideMean    float64            `json:"sideMean"`
	PRestart    float64            `json:"pRestart"`
	PRestartL   float64            `json:"pRestartLeader,omitempty"` // the block producer itself is stopped and reopened between blocks (everything it does afterwards is still judged against the model)
	PCrash      float64            `json:"pCrash"`
	CrashEnum   int                `json:"crashEnum"`             // number of blocks whose crash points are all enumerated
	Metamorphic bool               `json:"metamorphic,omitempty"` // second pass: the same history with every failed tx removed must give the same results (C05)
	CrashAgain  bool               `json:"crashAgain,omitempty"`  // also crash a second time during the recovery replay
	PLag        float64            `json:"pLag"`
	QueryMean   float64            `json:"queryMean"`
	EVM         bool               `json:"evm"`
	AvoidKnown  bool               `json:"avoidKnown"` // do not generate the shapes of listed known findings
	SilentVal   int                `json:"silentVal,omitempty"`   // actor index + 1 of a genesis validator that owns no coins (not among the asset holders) and never signs
	FreshHeavy  bool               `json:"freshHeavy,omitempty"`  // most transfers go to addresses never seen before (hundreds of accounts per world)
	BoundaryTie bool               `json:"boundaryTie,omitempty"` // scripted: a candidate ties with the weakest validator (different stake counts, so that the two rankings of the code break the tie differently), mempool checks of stake txs right after BeginBlock, then a stake tx on a tied delegatee
	RewardCliff int                `json:"rewardCliff,omitempty"` // K > 0: one whale validator and a reward rate at which its owner's claim passes 2^255 after about K blocks (the world ends before anything can reach 2^256)
}

type GenActor struct {
	Balance string `json:"balance"` // decimal
	Power   int64  `json:"power"`   // > 0: genesis validator
}

type GenesisSpec struct {
	ChainID  string     `json:"chainId"`
	TimeUnix int64      `json:"timeUnix"`
	Actors   []GenActor `json:"actors"`
	Gov      GovP       `json:"gov"`
}

type Mutation struct {
	Field string `json:"field"` // which field of the signed tx is altered
	How   string `json:"how"`
}

type Intent struct {
	Kind       string    `json:"k"`
	Actor      int       `json:"a"`
	To         string    `json:"to,omitempty"`  // a<i> actor, c<i> contract, z zero, x<i> fresh address, h:<hex>
	Amt        string    `json:"amt,omitempty"` // n:<dec> | pow:<n> | bal<+-k> (balance-fee+k) | claim<+-k> | 2^255 ...
	Nonce      int       `json:"nd,omitempty"`  // delta to the correct nonce
	Gas        string    `json:"gas,omitempty"` // "" = sensible default | min | min-1 | n:<dec>
	Price      string    `json:"price,omitempty"`
	Stake      int       `json:"stake,omitempty"` // stake sequence number (unstake)
	Prop       int       `json:"prop,omitempty"`  // proposal index (vote)
	Choice     int32     `json:"choice,omitempty"`
	Start      int64     `json:"start,omitempty"` // proposal: offsets relative to the block height
	Period     int64     `json:"period,omitempty"`
	Apply      int64     `json:"apply,omitempty"` // offset relative to start+period+lazyApplying
	Opts       []string  `json:"opts,omitempty"`
	OptType    int32     `json:"optType,omitempty"`
	Name       string    `json:"name,omitempty"`
	URL        string    `json:"url,omitempty"`
	Data       string    `json:"data,omitempty"` // hex: init code (deploy) or calldata (call)
	Raw        string    `json:"raw,omitempty"`  // hex: garbage bytes delivered as they are
	Mut        *Mutation `json:"mut,omitempty"`
	Repeat     int       `json:"rep,omitempty"`
	Replay     int       `json:"replay,omitempty"` // kind "replay": index into the history of included txs
	WrongChain bool      `json:"wrongChain,omitempty"`
	ToRaw      string    `json:"toRaw,omitempty"` // receiver field bytes used verbatim (any length), signed as they are
	EmptyChain bool      `json:"emptyChain,omitempty"` // signed for the empty chain id
	IDHex      *string   `json:"idHex,omitempty"` // unstake/vote: explicit payload hash bytes (hostile lengths)
}

type EvSpec struct {
	Actor  int   `json:"actor"`  // whose key signed the two conflicting votes
	Height int64 `json:"height"` // evidence height offset back from the block (>=1)
}

type Side struct {
	Replica int     `json:"r"`
	At      string  `json:"at"`   // yield point name
	Kind    string  `json:"kind"` // check | query
	Intent  *Intent `json:"intent,omitempty"`
	BlockTx int     `json:"blockTx,omitempty"` // check: -1 or index of a tx of the current block (+1)
	Twin    bool    `json:"twin,omitempty"`    // check: the genuine (unaltered) version of that block tx, if the block carries an altered one
	Path    string  `json:"path,omitempty"`
	QData   string  `json:"qdata,omitempty"` // a<i> | c<i> | p<i> | s... | hex
	QHeight int64   `json:"qh,omitempty"`    // 0 latest, >0 absolute, <0 relative to latest
}

type Fault struct {
	Kind    string `json:"kind"` // crashfork | restart | lag
	Replica int    `json:"r"`
	At      string `json:"at"`               // yield point or commit-write point name
	Follow  int    `json:"follow,omitempty"` // how many blocks the forked node follows
	Again   string `json:"again,omitempty"`  // crash a second time at this point while the recovering node replays the interrupted block
}

type BlockStep struct {
	DtMs     int64    `json:"dt"`
	Proposer int      `json:"proposer"` // -1: the engine's rotation; else index into the validator set
	Absent   []int    `json:"absent,omitempty"`
	SkewMs   []int64  `json:"skew,omitempty"`
	Evidence []EvSpec `json:"ev,omitempty"`
	Txs      []Intent `json:"txs"`
	Sides    []Side   `json:"sides,omitempty"`
	Faults   []Fault  `json:"faults,omitempty"`
}

type Trace struct {
	Version int         `json:"version"`
	Engine  string      `json:"engine"`
	Seed    uint64      `json:"seed"`
	World   int         `json:"world"`
	Cfg     Config      `json:"cfg"`
	Genesis GenesisSpec `json:"genesis"`
	Blocks  []BlockStep `json:"blocks"`
	// Expect is filled in for replay files: the check id that fired.
	Expect string `json:"expect,omitempty"`
	Note   string `json:"note,omitempty"`
}

func (t *Trace) Save(path string) error {
	b, err := json.MarshalIndent(t, "", " ")
	if err != nil {
		return err
	}
	_ = os.MkdirAll(filepath.Dir(path), 0o755)
	return os.WriteFile(path, b, 0o644)
}

func LoadTrace(path string) (*Trace, error) {
	b, err := os.ReadFile(path)
	if err != nil {
		return nil, err
	}
	t := &Trace{}
	if err := json.Unmarshal(b, t); err != nil {
		return nil, err
	}
	return t, nil
}

func (t *Trace) Clone() *Trace {
	b, _ := json.Marshal(t)
	c := &Trace{}
	_ = json.Unmarshal(b, c)
	return c
}
