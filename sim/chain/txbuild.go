package chain

import (
	"bytes"
	"crypto/ecdsa"
	"crypto/sha256"
	"encoding/binary"
	"encoding/hex"
	"fmt"
	"math/big"
	"strconv"
	"strings"

	"github.com/holiman/uint256"
	rtypes "github.com/rigochain/rigo-go/ctrlers/types"
	"github.com/rigochain/rigo-go/libs/web3"
	rbytes "github.com/rigochain/rigo-go/types/bytes"
	rcrypto "github.com/rigochain/rigo-go/types/crypto"
	tmsecp "github.com/tendermint/tendermint/crypto/secp256k1"
	tmtypes "github.com/tendermint/tendermint/types"
)

// Actor is a simulated client (and possibly validator): one secp256k1 key derived from the seed.
type Actor struct {
	Idx    int
	Priv   *ecdsa.PrivateKey
	TmPriv tmsecp.PrivKey
	PubKey []byte // 33 bytes compressed
	Addr   Addr
	PV     tmtypes.PrivValidator
}

func NewActor(seed uint64, idx int) *Actor {
	for ctr := uint64(0); ; ctr++ {
		h := sha256.New()
		var b [24]byte
		binary.BigEndian.PutUint64(b[:8], seed)
		binary.BigEndian.PutUint64(b[8:16], uint64(idx))
		binary.BigEndian.PutUint64(b[16:], ctr)
		h.Write([]byte("verif-actor-key"))
		h.Write(b[:])
		d := h.Sum(nil)
		priv, err := rcrypto.ImportPrvKey(d)
		if err != nil {
			continue
		}
		tp := tmsecp.PrivKey(d)
		pub := tp.PubKey().Bytes()
		a := &Actor{Idx: idx, Priv: priv, TmPriv: tp, PubKey: pub, Addr: ToAddr(tp.PubKey().Address())}
		a.PV = tmtypes.NewMockPVWithParams(tp, false, false)
		return a
	}
}

func freshAddr(seed uint64, k int) Addr {
	h := sha256.Sum256([]byte(fmt.Sprintf("verif-fresh-%d-%d", seed, k)))
	return ToAddr(h[:20])
}

var (
	two255 = new(big.Int).Lsh(big.NewInt(1), 255)
	two256 = new(big.Int).Lsh(big.NewInt(1), 256)
)

// TxPlan is a materialised intent: the tx that goes into the block plus what the harness knows
// about it (needed by the oracles).
type TxPlan struct {
	Intent       Intent
	Bytes        []byte
	Tx           *rtypes.Trx // decoded form of Bytes (nil if undecodable)
	Hash         []byte
	Genuine      []byte // encoding of the tx as its sender signed it, when Bytes is an altered version
	Garbage      bool // raw bytes, not a well-formed signed tx of ours
	Tampered     bool // altered after signing in a way that changes a signed field / signer / chain
	SigMalleated bool
	InertMut  bool // a mutation of the bytes that the node's decoder ignores (decoded tx identical)
	Signer       Addr
	ReplayOf     int // >=0 : bytes of an earlier included tx
	StakeSeq     int // unstake: which stake was meant (-1 unknown)
	PropID       string
}

func parseBigSym(s string) (*big.Int, bool) {
	if strings.HasPrefix(s, "n:") {
		v, ok := new(big.Int).SetString(s[2:], 10)
		return v, ok
	}
	if strings.HasPrefix(s, "pow:") {
		n, err := strconv.ParseInt(s[4:], 10, 64)
		if err != nil {
			return nil, false
		}
		return powerToAmt(n), true
	}
	switch s {
	case "", "0":
		return new(big.Int), true
	case "2^255":
		return new(big.Int).Set(two255), true
	case "2^255-1":
		return new(big.Int).Sub(two255, big.NewInt(1)), true
	case "2^256-1":
		return new(big.Int).Sub(two256, big.NewInt(1)), true
	}
	return nil, false
}

func deltaSuffix(s, prefix string) (int64, bool) {
	if !strings.HasPrefix(s, prefix) {
		return 0, false
	}
	rest := s[len(prefix):]
	if rest == "" {
		return 0, true
	}
	v, err := strconv.ParseInt(rest, 10, 64)
	if err != nil {
		return 0, false
	}
	return v, true
}

// blockScratch tracks, while the txs of one block are materialised, what earlier txs of the same
// block are expected to do (a prediction only; the model itself is driven by real outcomes).
type blockScratch struct {
	lastStake map[Addr][2][]byte // sender -> (tx hash, delegatee) of its latest staking tx in this block
	nonceAdd map[Addr]uint64
	spent    map[Addr]*big.Int
	gasEVM   uint64
}

func newScratch() *blockScratch {
	return &blockScratch{nonceAdd: map[Addr]uint64{}, spent: map[Addr]*big.Int{}, lastStake: map[Addr][2][]byte{}}
}

func (w *World) resolveTarget(to string) (Addr, bool) {
	if to == "" || to == "z" {
		return Addr{}, true
	}
	switch to[0] {
	case 'a':
		i, err := strconv.Atoi(to[1:])
		if err != nil || i < 0 || i >= len(w.Actors) {
			return Addr{}, false
		}
		return w.Actors[i].Addr, true
	case 'c':
		i, err := strconv.Atoi(to[1:])
		if err != nil || i < 0 || i >= len(w.M.Contracts) {
			return Addr{}, false
		}
		return w.M.Contracts[i], true
	case 'i':
		i, err := strconv.Atoi(to[1:])
		if err != nil || i < 0 || i >= len(w.M.InnerList) {
			return Addr{}, false
		}
		return w.M.InnerList[i], true
	case 'x':
		i, _ := strconv.Atoi(to[1:])
		return freshAddr(w.Tr.Seed, i), true
	case 'h':
		b, err := hex.DecodeString(strings.TrimPrefix(to, "h:"))
		if err != nil {
			return Addr{}, false
		}
		return ToAddr(b), true
	}
	return Addr{}, false
}

func u256(b *big.Int) *uint256.Int {
	v := new(big.Int).Set(b)
	if v.Sign() < 0 {
		v.SetInt64(0)
	}
	v.Mod(v, two256)
	r, _ := uint256.FromBig(v)
	return r
}

// materialise turns a symbolic intent into tx bytes using the model state at block start plus
// the in-block scratch. It never draws random numbers.
func (w *World) materialise(it Intent, h int64, idx int, sc *blockScratch) *TxPlan {
	p := &TxPlan{Intent: it, ReplayOf: -1, StakeSeq: -1}
	if it.Kind == "raw" {
		b, _ := hex.DecodeString(it.Raw)
		p.Bytes = b
		p.Garbage = true
		p.finish()
		return p
	}
	if it.Kind == "bytes" {
		// exact bytes of a signed transaction (second pass of the metamorphic check)
		b, _ := hex.DecodeString(it.Raw)
		p.Bytes = b
		p.finish()
		if p.Tx != nil {
			p.Signer = ToAddr(p.Tx.From)
		} else {
			p.Garbage = true
		}
		return p
	}
	if it.Kind == "replay" {
		if it.Replay >= 0 && it.Replay < len(w.History) {
			p.Bytes = append([]byte(nil), w.History[it.Replay]...)
			p.ReplayOf = it.Replay
			p.finish()
			if p.Tx != nil {
				p.Signer = ToAddr(p.Tx.From)
			}
			if it.Mut != nil && it.Mut.Field == "nonce" && it.Mut.How == "cur" && p.Tx != nil && it.Replay < len(w.HistPlain) && w.HistPlain[it.Replay] {
				// the bytes of an earlier included tx with nothing but the nonce field rewritten to the value the
				// sender's account expects now; the signature is kept (it covers the old nonce). Only entries that are
				// txs exactly as the harness signed them are used: the nonce in their bytes is the signed one, so
				// any other value is an alteration (rewriting an already altered entry could restore its genuine form).
				if cur := w.M.Nonce(p.Signer); cur != p.Tx.Nonce {
					orig := p.Bytes
					p.Tx.Nonce = cur
					if b, xerr := p.Tx.Encode(); xerr == nil {
						p.Bytes, p.Genuine, p.Tampered = b, orig, true
						p.finish()
						w.Probes.Hit("gen.replay-renonced")
					}
				}
			}
			return p
		}
		p.Bytes = []byte{0}
		p.Garbage = true
		p.finish()
		return p
	}
	if it.Actor < 0 || it.Actor >= len(w.Actors) {
		p.Bytes = []byte{1}
		p.Garbage = true
		p.finish()
		return p
	}
	m := w.M
	act := w.Actors[it.Actor]
	from := act.Addr
	p.Signer = from
	gov := m.Gov

	// gas & price
	price := new(big.Int).Set(gov.GasPrice)
	switch it.Price {
	case "", "gov":
	case "gov+1":
		price.Add(price, big.NewInt(1))
	case "gov-1":
		price.Sub(price, big.NewInt(1))
	case "0":
		price.SetInt64(0)
	case "max":
		price.Sub(two256, big.NewInt(1))
	default:
		if v, ok := parseBigSym(it.Price); ok {
			price = v
		}
	}
	isEVM := it.Kind == "deploy" || it.Kind == "call"
	to, okTo := w.resolveTarget(it.To)
	if !okTo {
		to = Addr{}
	}
	if it.Kind == "transfer" && (m.IsContract(to) || m.Deployed[to]) {
		isEVM = true
	}
	gas := gov.MinTrxGas
	if isEVM {
		gas = 300000
		if gas < gov.MinTrxGas {
			gas = gov.MinTrxGas
		}
	}
	switch it.Gas {
	case "":
	case "min":
		gas = gov.MinTrxGas
	case "min-1":
		if gov.MinTrxGas > 0 {
			gas = gov.MinTrxGas - 1
		}
	case "0":
		gas = 0
	case "max":
		gas = ^uint64(0)
	case "2^63":
		gas = 1 << 63
	default:
		if strings.HasPrefix(it.Gas, "n:") {
			if v, err := strconv.ParseUint(it.Gas[2:], 10, 64); err == nil {
				gas = v
			}
		}
	}
	if isEVM {
		// a repeated copy of a contract tx that fails inside the EVM is executed again (nothing changed, so
		// its nonce is still right) and draws on the pool again
		copies := uint64(1 + it.Repeat)
		if sc.gasEVM+gas*copies > 24_000_000 && gas <= 24_000_000 {
			// keep the block gas pool out of the picture (see DESIGN: not a property)
			gas = gov.MinTrxGas
		}
		if gas <= 24_000_000 {
			sc.gasEVM += gas * copies
		}
	}
	fee := new(big.Int).Mul(price, new(big.Int).SetUint64(gas))

	bal := m.Balance(from)
	if s, ok := sc.spent[from]; ok {
		bal.Sub(bal, s)
		if bal.Sign() < 0 {
			bal.SetInt64(0)
		}
	}
	// amount
	var amt *big.Int
	if v, ok := parseBigSym(it.Amt); ok {
		amt = v
	} else if d, ok := deltaSuffix(it.Amt, "bal"); ok {
		amt = new(big.Int).Sub(bal, fee)
		amt.Add(amt, big.NewInt(d))
		if amt.Sign() < 0 {
			amt.SetInt64(0)
		}
	} else if d, ok := deltaSuffix(it.Amt, "claim"); ok {
		amt = new(big.Int).Add(m.Claim(from), big.NewInt(d))
		if amt.Sign() < 0 {
			amt.SetInt64(0)
		}
	} else if strings.HasPrefix(it.Amt, "claim/") {
		k, _ := strconv.ParseInt(it.Amt[6:], 10, 64)
		if k <= 0 {
			k = 2
		}
		amt = new(big.Int).Div(m.Claim(from), big.NewInt(k))
	} else if strings.HasPrefix(it.Amt, "bal/") {
		k, _ := strconv.ParseInt(it.Amt[4:], 10, 64)
		if k <= 0 {
			k = 2
		}
		amt = new(big.Int).Div(bal, big.NewInt(k))
	} else {
		amt = new(big.Int)
	}

	nonce := m.Nonce(from) + sc.nonceAdd[from]
	if it.Nonce != 0 {
		nn := int64(nonce) + int64(it.Nonce)
		if nn < 0 {
			nn = 0
		}
		nonce = uint64(nn)
	}

	gp := u256(price)
	var tx *rtypes.Trx
	fromB, toB := from.Bytes(), to.Bytes()
	zero := make([]byte, 20)
	switch it.Kind {
	case "transfer":
		tx = web3.NewTrxTransfer(fromB, toB, nonce, gas, gp, u256(amt))
	case "stake":
		tx = web3.NewTrxStaking(fromB, toB, nonce, gas, gp, u256(amt))
	case "unstake":
		var st *MStake
		if it.Stake >= 0 && it.Stake < len(m.AllStakes) {
			st = m.AllStakes[it.Stake]
		}
		var id []byte
		if st != nil {
			id, _ = hex.DecodeString(st.ID)
			toB = st.To.Bytes()
			p.StakeSeq = st.Seq
		} else {
			id = make([]byte, 32)
			id[0] = byte(it.Stake)
		}
		if it.To != "" && okTo {
			toB = to.Bytes()
		}
		if it.IDHex != nil {
			id, _ = hex.DecodeString(*it.IDHex)
			p.StakeSeq = -1
		}
		if it.Stake == -2 {
			// the stake this sender created earlier in this very block
			if ls, ok := sc.lastStake[from]; ok {
				id, toB = ls[0], ls[1]
			}
		}
		tx = web3.NewTrxUnstaking(fromB, toB, nonce, gas, gp, id)
	case "withdraw":
		wTo := fromB
		if it.To != "" && okTo {
			wTo = toB // the receiver field of a withdrawal is not its beneficiary
		}
		tx = web3.NewTrxWithdraw(fromB, wTo, nonce, gas, gp, u256(amt))
	case "proposal":
		start := h + it.Start
		period := it.Period
		apply := start + period + gov.LazyApplyingBlocks + it.Apply
		var opts [][]byte
		for _, o := range it.Opts {
			opts = append(opts, []byte(o))
		}
		ot := it.OptType
		if ot == 0 {
			ot = 0x0101
		}
		tx = web3.NewTrxProposal(fromB, zero, nonce, gas, gp, "verif", start, period, apply, ot, opts...)
	case "vote":
		var id []byte
		if it.Prop >= 0 && it.Prop < len(m.PropOrder) {
			p.PropID = m.PropOrder[it.Prop]
			id, _ = hex.DecodeString(p.PropID)
		} else {
			id = make([]byte, 32)
			id[31] = byte(it.Prop)
		}
		if it.IDHex != nil {
			id, _ = hex.DecodeString(*it.IDHex)
		}
		tx = web3.NewTrxVoting(fromB, zero, nonce, gas, gp, id, it.Choice)
	case "setdoc":
		tx = web3.NewTrxSetDoc(fromB, nonce, gas, gp, it.Name, it.URL)
	case "deploy":
		data, _ := hex.DecodeString(it.Data)
		tx = web3.NewTrxContract(fromB, zero, nonce, gas, gp, u256(amt), data)
	case "call":
		data, _ := hex.DecodeString(it.Data)
		tx = web3.NewTrxContract(fromB, toB, nonce, gas, gp, u256(amt), data)
	default:
		p.Bytes = []byte{2}
		p.Garbage = true
		p.finish()
		return p
	}
	if (it.Kind == "setdoc" || it.Kind == "unstake" || it.Kind == "vote" || it.Kind == "proposal") && it.Amt != "" && amt != nil {
		tx.Amount = u256(amt) // an amount on a tx type that moves none
	}
	tx.Time = w.Tr.Genesis.TimeUnix*1_000_000_000 + h*1_000_000 + int64(idx)
	if it.ToRaw != "" {
		if b, err := hex.DecodeString(it.ToRaw); err == nil {
			tx.To = b
		}
	}

	chain := m.ChainID
	if it.WrongChain {
		// a sibling chain: other text, or only the trailing number / its presence differs
		switch (int(h) + idx + it.Actor) % 4 {
		case 0:
			chain = chain + "-other"
		case 1:
			chain = chain + "-1"
		case 2:
			if i := strings.LastIndex(chain, "-"); i > 0 {
				chain = chain[:i]
			} else {
				chain = chain + "0"
			}
		default:
			if i := strings.LastIndex(chain, "-"); i > 0 {
				chain = chain[:i+1] + "0" + chain[i+1:] // verif-956 -> verif-0956
			} else {
				chain = strings.ToUpper(chain)
			}
		}
		p.Tampered = true
	}
	if it.EmptyChain {
		chain = ""
		p.Tampered = true
	}
	w.signTx(tx, act, chain)
	if it.Mut != nil {
		if gb, xerr := tx.Encode(); xerr == nil && !it.WrongChain && !it.EmptyChain {
			p.Genuine = gb
		}
		w.applyMutation(p, tx, it.Mut, act)
	}
	bz, xerr := tx.Encode()
	if xerr != nil {
		p.Bytes = []byte{3}
		p.Garbage = true
		p.finish()
		return p
	}
	p.Bytes = bz
	p.finish()
	if it.Kind == "stake" && !p.Tampered {
		sc.lastStake[from] = [2][]byte{append([]byte(nil), p.Hash...), to.Bytes()}
	}

	// prediction for later txs of this block
	if !p.Tampered && it.Nonce == 0 {
		need := new(big.Int).Add(fee, amt)
		if need.Cmp(bal) <= 0 && (it.Price == "" || it.Price == "gov") && it.Gas != "min-1" && it.Gas != "0" {
			sc.nonceAdd[from]++
			s := sc.spent[from]
			if s == nil {
				s = new(big.Int)
				sc.spent[from] = s
			}
			s.Add(s, fee)
			if it.Kind == "transfer" || it.Kind == "stake" || it.Kind == "deploy" || it.Kind == "call" {
				s.Add(s, amt)
			}
		}
	}
	return p
}

func (w *World) signTx(tx *rtypes.Trx, act *Actor, chainID string) {
	pre, xerr := rtypes.PreImageToSignTrxRLP(tx, chainID)
	if xerr != nil {
		panic(xerr)
	}
	sig, err := rcrypto.Sign(pre, act.Priv)
	if err != nil {
		panic(err)
	}
	tx.Sig = sig
}

func (p *TxPlan) finish() {
	p.Hash = tmtypes.Tx(p.Bytes).Hash()
	tx := &rtypes.Trx{}
	if xerr := tx.Decode(p.Bytes); xerr == nil {
		p.Tx = tx
	}
}

var secpN, _ = new(big.Int).SetString("FFFFFFFFFFFFFFFFFFFFFFFFFFFFFFFEBAAEDCE6AF48A03BBFD25E8CD0364141", 16)

// applyMutation alters a signed tx in flight. Tampered is set iff the alteration changes a signed
// field, the claimed sender or the signer; a malleated-but-valid signature is tracked separately.
func (w *World) applyMutation(p *TxPlan, tx *rtypes.Trx, mu *Mutation, act *Actor) {
	one := uint256.NewInt(1)
	switch mu.Field {
	case "amount":
		if mu.How == "shl8" && tx.Amount.BitLen() <= 200 && !tx.Amount.IsZero() {
			tx.Amount = new(uint256.Int).Lsh(tx.Amount, 8) // the same digits, one byte further up
		} else if mu.How == "w64" || mu.How == "w128" {
			sh := uint(64)
			if mu.How == "w128" {
				sh = 128
			}
			tx.Amount = new(uint256.Int).Add(tx.Amount, new(uint256.Int).Lsh(one, sh))
		} else if mu.How == "dec" && !tx.Amount.IsZero() {
			tx.Amount = new(uint256.Int).Sub(tx.Amount, one)
		} else {
			tx.Amount = new(uint256.Int).Add(tx.Amount, one)
		}
		p.Tampered = true
	case "to":
		other := w.Actors[(act.Idx+1)%len(w.Actors)].Addr
		if ToAddr(tx.To) == other {
			other = w.Actors[(act.Idx+2)%len(w.Actors)].Addr
		}
		tx.To = other.Bytes()
		p.Tampered = true
	case "from":
		// claim another (funded) sender, keep the signature
		victim := w.Actors[(act.Idx+1)%len(w.Actors)]
		tx.From = victim.Addr.Bytes()
		tx.Nonce = w.M.Nonce(victim.Addr)
		p.Tampered = true
	case "from-resign":
		// claim another sender and sign with the own key over the altered tx
		victim := w.Actors[(act.Idx+1)%len(w.Actors)]
		tx.From = victim.Addr.Bytes()
		tx.Nonce = w.M.Nonce(victim.Addr)
		w.signTx(tx, act, w.M.ChainID)
		p.Tampered = true
	case "nonce":
		// re-target the signed tx to a nonce that would be acceptable later/earlier
		if mu.How == "dec" && tx.Nonce > 0 {
			tx.Nonce--
		} else {
			tx.Nonce++
		}
		p.Tampered = true
	case "gas":
		tx.Gas++
		p.Tampered = true
	case "gasprice":
		tx.GasPrice = new(uint256.Int).Add(tx.GasPrice, one)
		p.Tampered = true
	case "type":
		// transfer <-> staking share the (empty) payload encoding
		if tx.Type == rtypes.TRX_TRANSFER {
			tx.Type = rtypes.TRX_STAKING
		} else if tx.Type == rtypes.TRX_STAKING {
			tx.Type = rtypes.TRX_TRANSFER
		} else {
			tx.Type = rtypes.TRX_TRANSFER
			tx.Payload = nil
		}
		p.Tampered = true
	case "time":
		tx.Time++
		p.Tampered = true
	case "version":
		tx.Version++
		p.Tampered = true
	case "inject":
		// attach payload bytes to a tx type that carries none on the wire (the signer never saw them).
		// Whether this alters what executes is decided by the node's own decoder: if the decoded tx equals
		// the signed one the addition is inert, otherwise it is tampering.
		orig := *tx
		tx.Payload = &rtypes.TrxPayloadContract{Data: []byte{0xee, 0xee, 0xee, 0xee, byte(act.Idx)}}
		if bz, xerr := tx.Encode(); xerr == nil {
			dec := &rtypes.Trx{}
			if dec.Decode(bz) == nil {
				origPl := orig.Payload
				if dec.Payload == nil && (origPl == nil || origPl.Type() == rtypes.TRX_TRANSFER || origPl.Type() == rtypes.TRX_STAKING) {
					p.InertMut = true
				} else {
					p.Tampered = true
				}
			}
		}
	case "payload":
		switch pl := tx.Payload.(type) {
		case *rtypes.TrxPayloadUnstaking:
			// re-target the signed release to another stake of the same owner under the same delegatee
			// (executable if the signature does not cover the hash); otherwise a hash that names nothing
			var other []byte
			for _, st := range w.M.AllStakes {
				if st.Owner == ToAddr(tx.From) && st.To == ToAddr(tx.To) && !w.M.Refunded[st.Seq] && st.ID != hex.EncodeToString(pl.TxHash) && st.ID != zeroHashHex {
					if d := w.M.Delegs[st.To]; d != nil {
						for _, b := range d.Stakes {
							if b == st {
								other, _ = hex.DecodeString(st.ID)
							}
						}
					}
				}
			}
			h := append([]byte(nil), pl.TxHash...)
			if mu.How == "extend" {
				h = append(h, 0xab, 0xcd) // the same stake for every lookup that reads the first 32 bytes
			} else if other != nil {
				h = other
			} else if len(h) > 0 {
				h[len(h)-1] ^= 1
			}
			pl.TxHash = h
		case *rtypes.TrxPayloadWithdraw:
			if mu.How == "w64" {
				pl.ReqAmt = new(uint256.Int).Add(pl.ReqAmt, new(uint256.Int).Lsh(one, 64))
			} else {
				pl.ReqAmt = new(uint256.Int).Add(pl.ReqAmt, one)
			}
		case *rtypes.TrxPayloadProposal:
			switch mu.How {
			case "msg":
				pl.Message += "!"
			case "opt":
				if len(pl.Options) > 0 {
					pl.Options[0] = append(append([]byte(nil), pl.Options[0]...), ' ')
				}
			case "apply":
				pl.ApplyingHeight++
			case "period":
				pl.VotingPeriodBlocks++
			default:
				pl.StartVotingHeight++
			}
		case *rtypes.TrxPayloadVoting:
			if mu.How == "extend" {
				pl.TxHash = append(append([]byte(nil), pl.TxHash...), 0xab, 0xcd, 0xef, 0x01)
			} else if mu.How == "hash" {
				h := append([]byte(nil), pl.TxHash...)
				if len(h) > 0 {
					h[0] ^= 1
				}
				pl.TxHash = h
			} else {
				pl.Choice ^= 1
			}
		case *rtypes.TrxPayloadContract:
			if mu.How == "tail" && len(pl.Data) > 0 {
				d := append([]byte(nil), pl.Data...)
				d[len(d)-1] ^= 0x01 // same length, last byte altered
				pl.Data = d
			} else {
				pl.Data = append(append([]byte(nil), pl.Data...), 0)
			}
		case *rtypes.TrxPayloadSetDoc:
			if pl.Name != pl.URL && (pl.Name == "" || pl.URL == "" || mu.How == "opt") {
				pl.Name, pl.URL = pl.URL, pl.Name // the same two strings in the other fields
			} else if mu.How == "url" {
				pl.URL += "x"
			} else {
				pl.Name += "x"
			}
		default:
			tx.Time++
		}
		p.Tampered = true
	case "sig":
		sig := append([]byte(nil), tx.Sig...)
		switch mu.How {
		case "flip":
			if len(sig) > 10 {
				sig[10] ^= 0x40
			}
			p.Tampered = true
		case "trunc":
			if len(sig) > 1 {
				sig = sig[:len(sig)-1]
			}
			p.Tampered = true
		case "v":
			if len(sig) == 65 {
				sig[64] ^= 1
			}
			p.Tampered = true
		case "malleate":
			// (r, s, v) -> (r, n-s, v^1): a different byte string for the same signer and message
			if len(sig) == 65 {
				s := new(big.Int).SetBytes(sig[32:64])
				s.Sub(secpN, s)
				sb := s.Bytes()
				copy(sig[32:64], make([]byte, 32))
				copy(sig[64-len(sb):64], sb)
				sig[64] ^= 1
			}
			p.SigMalleated = true
		case "other":
			// signature of another key over the same message
			other := w.Actors[(act.Idx+1)%len(w.Actors)]
			w.signTx(tx, other, w.M.ChainID)
			sig = tx.Sig
			p.Tampered = true
		case "empty":
			sig = nil
			p.Tampered = true
		case "reuse":
			// the (public) signature of an earlier genuine tx of the same sender on this different tx
			sig = nil
			for i := len(w.History) - 1; i >= 0 && sig == nil; i-- {
				old := &rtypes.Trx{}
				if old.Decode(w.History[i]) == nil && ToAddr(old.From) == act.Addr && len(old.Sig) == 65 && !bytes.Equal(old.Sig, tx.Sig) {
					if _, ok := verifySig(old, w.M.ChainID); ok {
						sig = append([]byte(nil), old.Sig...)
					}
				}
			}
			if sig == nil {
				other := w.Actors[(act.Idx+1)%len(w.Actors)]
				w.signTx(tx, other, w.M.ChainID)
				sig = tx.Sig
			}
			p.Tampered = true
		}
		tx.Sig = rbytes.HexBytes(sig)
	}
}
