package chain

import (
	"bytes"
	"encoding/base64"
	"encoding/hex"
	"encoding/json"
	"fmt"
	"math/big"
	"os"
	"path/filepath"
	"strconv"
	"strings"

	"github.com/ethereum/go-ethereum/common"
	rigoevm "github.com/rigochain/rigo-go/ctrlers/vm/evm"
	abci "github.com/tendermint/tendermint/abci/types"
)

func (w *World) evmCtrler() *rigoevm.EVMCtrler {
	_, _, _, ec := w.leader().App.VerifCtrlers()
	return ec
}

// ---- side steps: CheckTx and Query at yield points ------------------------------------------------

func (w *World) execSide(r *Replica, ri int, s *Side, point string) {
	switch s.Kind {
	case "check":
		if r.MempoolLocked {
			return // the engine holds the mempool lock here: such a schedule cannot occur
		}
		var txb []byte
		kind := "garbage"
		forged := false
		parkable := false
		if s.BlockTx > 0 && s.BlockTx-1 < len(w.curPlans) {
			p := w.curPlans[s.BlockTx-1]
			forged = p.Tampered
			txb = p.Bytes
			if s.Twin && p.Genuine != nil {
				forged = false
				txb = p.Genuine
				w.Probes.Hit("side.check.genuine-twin")
			}
			if p.Tx != nil {
				kind = kindName(p.Tx.Type)
			}
			w.Probes.Hit("side.check.block-tx")
		} else if s.Intent != nil {
			p := w.materialise(*s.Intent, w.curH, 900+len(w.Log)%50, newScratch())
			forged = p.Tampered
			txb = p.Bytes
			if !p.Tampered && !p.Garbage && !p.SigMalleated && p.Tx != nil && p.Tx.Type != trxUnstaking {
				parkable = true
			}
			if p.Tx != nil {
				kind = kindName(p.Tx.Type)
			}
		} else {
			return
		}
		if ri == 0 && forged {
			w.forgedCheckH = w.curH
			w.Probes.Hit("side.check.forged-on-producer")
		}
		res, err := r.CheckTx(txb)
		w.Probes.Hit("side.check")
		w.Probes.Hit("side.check@" + pointClass(point) + "." + kind)
		w.ShapeParts = append(w.ShapeParts, "ck@"+pointClass(point)+kind[:2])
		if (kind == "staking" || kind == "unstaking") && inBlock(point) && w.leader().State.Validators.Size() >= 3 {
			w.Probes.Hit("side.check.stake-in-block-3vals")
		}
		if err != nil {
			w.sidePanic(r, "CheckTx", err)
			return
		}
		w.logf("S %s %s check %s -> %d", r.Name, point, kind, res.Code)
		if parkable && res.Code == 0 && len(w.Parked) < 24 {
			// it waits in that node's mempool: a later block may carry it (after parameters, nonces or
			// balances have moved on)
			w.Parked = append(w.Parked, hex.EncodeToString(txb))
		}
	case "query":
		w.execQuery(r, s, point)
	case "info":
		// the Info request of the query connection (abci_info) may arrive at any time
		res, err := r.Info()
		w.Probes.Hit("side.info")
		if err != nil {
			w.sidePanic(r, "Info", err)
			return
		}
		w.logf("S %s %s info -> %d %x", r.Name, point, res.LastBlockHeight, res.LastBlockAppHash)
	}
}

func inBlock(point string) bool {
	return point == "bb" || strings.HasPrefix(point, "tx:") || point == "eb"
}

func (w *World) sidePanic(r *Replica, what string, err error) {
	if pe, ok := err.(*PanicError); ok {
		v := w.violate("side.panic", []string{"C09"}, w.curH, "replica %s: %s: %s @ %s", r.Name, what, pe.Val, pe.Stack)
		v.Shape = panicShape(pe)
	} else {
		w.violate("side.error", []string{"C09"}, w.curH, "replica %s: %s: %v", r.Name, what, err)
	}
	w.Fatal = true
}

func (w *World) resolveQData(qd string) []byte {
	if qd == "" {
		return nil
	}
	switch qd[0] {
	case 'a', 'c', 'x', 'z':
		if a, ok := w.resolveTarget(qd); ok {
			return a[:]
		}
	case 'p':
		i, _ := strconv.Atoi(qd[1:])
		if i >= 0 && i < len(w.M.PropOrder) {
			b, _ := hex.DecodeString(w.M.PropOrder[i])
			return b
		}
		return make([]byte, 32)
	case 'h':
		b, _ := hex.DecodeString(strings.TrimPrefix(qd, "h:"))
		return b
	}
	return []byte(qd)
}

// execQuery issues a query and judges it against the model snapshot of the requested height (C19).
func (w *World) execQuery(r *Replica, s *Side, point string) {
	committed := r.State.LastBlockHeight
	if r.cur != nil && r.Results[r.cur.Height] != nil && r.cur.Height > committed {
		// between the application's Commit and the engine's state save the application already
		// answers for the new height
		committed = r.cur.Height
	}
	qh := s.QHeight
	if qh < 0 {
		qh = committed + qh
		if qh < 1 {
			qh = 1
		}
	}
	data := w.resolveQData(s.QData)
	res, err := r.Query(s.Path, data, qh)
	w.Probes.Hit("side.query")
	w.Probes.Hit("side.query@" + pointClass(point))
	w.ShapeParts = append(w.ShapeParts, "q@"+pointClass(point)+s.Path)
	if err != nil {
		w.sidePanic(r, fmt.Sprintf("Query(%s,%x,%d)", s.Path, data, qh), err)
		return
	}
	eff := qh
	if eff == 0 {
		eff = committed
	}
	w.logf("S %s %s query %s %x h=%d -> %d %x", r.Name, point, s.Path, data, qh, res.Code, shortHash(canonicalJSON(res.Value)))
	if eff > committed {
		w.Probes.Hit("query.future")
		if res.Code == 0 && s.Path != "vm_call" && isKnownPath(s.Path) {
			w.violate("query.future", []string{"C19"}, w.curH, "replica %s at %s: query %s for height %d (committed %d) answered with success", r.Name, point, s.Path, qh, committed)
		}
		return
	}
	if eff < 1 {
		return // nothing is committed yet
	}
	if inBlock(point) {
		w.Probes.Hit("query.mid-block")
	}
	if eff < committed {
		w.Probes.Hit("query.past-height")
	}
	w.judgeQuery(r, s.Path, data, eff, res, point)
}

func isKnownPath(p string) bool {
	switch p {
	case "account", "stakes", "stakes/total_power", "delegatee", "reward", "proposal", "gov_params":
		// stakes/voting_power is not in the statement's list (it is computed with the current
		// governance parameters, so its answer for a past height can change: observation S12)
		return true
	}
	return false
}

func (w *World) judgeQuery(r *Replica, path string, data []byte, h int64, res *abci.ResponseQuery, point string) {
	snap := w.M.Snaps[h]
	if snap == nil {
		return
	}
	// stability: the same question about the same height always has the same answer
	if isKnownPath(path) && h >= 1 {
		key := fmt.Sprintf("q|%s|%x|%d", path, data, h)
		// compared in canonical form: the node's JSON encoder emits map entries in arbitrary order
		ans := append([]byte{byte(res.Code)}, canonicalJSON(res.Value)...)
		if prev, ok := w.QueryMemo[key]; ok {
			if !bytes.Equal(prev, ans) {
				w.violate("query.unstable", []string{"C19"}, w.curH, "replica %s at %s: %s(%x) at height %d answered differently than before", r.Name, point, path, data, h)
			} else {
				w.Probes.Hit("query.repeat-same")
			}
		} else {
			w.QueryMemo[key] = ans
		}
	}
	props := []string{"C19"}
	if path == "vm_call" {
		props = []string{"C17", "C19"}
	}
	bad := func(f string, a ...interface{}) {
		w.violate("query.value", props, w.curH, "replica %s at %s: %s(%x) at height %d: %s", r.Name, point, path, data, h, fmt.Sprintf(f, a...))
	}
	switch path {
	case "account":
		if len(data) != 20 || res.Code != 0 {
			return
		}
		var d map[string]interface{}
		if json.Unmarshal(res.Value, &d) != nil {
			bad("undecodable %s", res.Value)
			return
		}
		a := ToAddr(data)
		wAt := w.M.StateAt(h)
		bal, _ := jbig(d["balance"])
		nonce, _ := jnum(d["nonce"])
		if bal == nil || bal.Cmp(wAt.GetBalance(common.Address(a))) != 0 {
			bad("balance %v, committed %s", bal, wAt.GetBalance(common.Address(a)))
		}
		if uint64(nonce) != wAt.GetNonce(common.Address(a)) {
			bad("nonce %d, committed %d", nonce, wAt.GetNonce(common.Address(a)))
		}
		if jstr(d["name"]) != snap.Meta[a].Name {
			bad("name %q, committed %q", jstr(d["name"]), snap.Meta[a].Name)
		}
		w.Probes.Hit("query.judged.account")
	case "delegatee":
		if len(data) != 20 {
			return
		}
		md := snap.Delegs[ToAddr(data)]
		if res.Code != 0 {
			if md != nil && len(md.Stakes) > 0 {
				bad("not found, but the delegatee has %d bonded stakes", len(md.Stakes))
			}
			return
		}
		var d map[string]interface{}
		if json.Unmarshal(res.Value, &d) != nil {
			bad("undecodable")
			return
		}
		tp, _ := jnum(d["totalPower"])
		sp, _ := jnum(d["selfPower"])
		var mt, ms int64
		if md != nil {
			mt, ms = md.Total(), md.Self()
		}
		if tp != mt || sp != ms {
			bad("total/self %d/%d, committed %d/%d", tp, sp, mt, ms)
		}
		w.Probes.Hit("query.judged.delegatee")
	case "stakes":
		if len(data) != 20 || res.Code != 0 {
			return
		}
		var lst []map[string]interface{}
		_ = json.Unmarshal(res.Value, &lst)
		sum := int64(0)
		for _, e := range lst {
			p, _ := jnum(e["power"])
			sum += p
		}
		msum := int64(0)
		own := ToAddr(data)
		for _, d := range snap.Delegs {
			for _, st := range d.Stakes {
				if st.Owner == own {
					msum += st.Power
				}
			}
		}
		if sum != msum {
			bad("stakes of owner sum to %d, committed %d", sum, msum)
		}
		w.Probes.Hit("query.judged.stakes")
	case "stakes/total_power":
		if res.Code != 0 {
			return
		}
		n, _ := strconv.ParseInt(string(res.Value), 10, 64)
		m := int64(0)
		for _, d := range snap.Delegs {
			m += d.Total()
		}
		if n != m {
			bad("%d, committed %d", n, m)
		}
		w.Probes.Hit("query.judged.total_power")
	case "stakes/voting_power":
		// The handler selects with the parameters in force when it is asked (so an answer about a past height
		// may change when governance changes the minimum or the seat count: not judged then). Judged while
		// the parameters of height h are still the ones in force and no EndBlock of the running block has
		// touched them: the total power of the delegatees the selection rule picks from the state of h.
		pc := pointClass(point)
		if res.Code != 0 || !(pc == "pre" || pc == "bb.pre" || pc == "bb" || pc == "tx") {
			return
		}
		live := w.M.Gov
		if !w.selectionParamsStable(h) {
			return
		}
		n, _ := strconv.ParseInt(string(res.Value), 10, 64)
		want := int64(0)
		for i, c := range snap.Candidates(live.MinValidatorStake) {
			if i >= int(live.MaxValidatorCnt) {
				break
			}
			want += c.Power
		}
		if n != want {
			bad("%d, the validators selected from the state of that height hold %d", n, want)
		}
		w.Probes.Hit("query.judged.voting_power")
	case "reward":
		if len(data) != 20 {
			return
		}
		if h <= 4 && w.BootstrapDirty {
			return
		}
		mc := snap.Claims[ToAddr(data)]
		if res.Code != 0 {
			if mc != nil && mc.Sign() > 0 {
				bad("not found, committed claim %s", mc)
			}
			return
		}
		d := &rewardDoc{}
		if json.Unmarshal(res.Value, d) != nil {
			bad("undecodable")
			return
		}
		c, _ := new(big.Int).SetString(d.Cumulated, 10)
		if mc == nil {
			mc = new(big.Int)
		}
		if c == nil || c.Cmp(mc) != 0 {
			bad("claim %v, committed %s", c, mc)
		}
		if pc := pointClass(point); h == r.State.LastBlockHeight && (pc == "pre" || pc == "bb.pre") {
			// between blocks, for the height just committed: every field of the answer against the record the
			// node itself holds as committed
			_, sc, _, _ := r.App.VerifCtrlers()
			if rec := sc.ReadRewardOf(data); rec != nil {
				for _, f := range [][3]string{{"issued", d.Issued, rec.GetIssued().Dec()}, {"withdrawn", d.Withdrawn, rec.GetWithdrawn().Dec()},
					{"slashed", d.Slashed, rec.GetSlashed().Dec()}, {"cumulated", d.Cumulated, rec.GetCumulated().Dec()}} {
					if f[1] != "" && f[1] != f[2] {
						bad("%s %s, the committed record holds %s", f[0], f[1], f[2])
					}
				}
				w.Probes.Hit("query.judged.reward-record")
			}
		}
		w.Probes.Hit("query.judged.reward")
	case "gov_params":
		if res.Code != 0 {
			bad("error code %d", res.Code)
			return
		}
		if w.adoptGov && h >= w.M.H {
			// several options reached the threshold in the block just applied and the statement does not say
			// which one wins: the model takes over the node's choice in the committed-state check of that
			// block, which runs after the followers (and the queries they serve meanwhile)
			return
		}
		var doc map[string]interface{}
		if json.Unmarshal(res.Value, &doc) != nil {
			bad("undecodable")
			return
		}
		if d := govDiff(govFromDoc(doc), snap.Gov); d != "" {
			bad("%s", d)
		}
		w.Probes.Hit("query.judged.gov_params")
	case "vm_call":
		w.judgeVmCall(r, data, h, res, point, bad)
	case "proposal":
		if len(data) == 0 || res.Code != 0 {
			return
		}
		var e map[string]interface{}
		if json.Unmarshal(res.Value, &e) != nil {
			bad("undecodable")
			return
		}
		id, desc := describeImplProp(e)
		var want string
		if p := snap.Props[id]; p != nil {
			want = describeModelProp(p, "voting")
		} else if p := snap.FrozenProps[id]; p != nil {
			want = describeModelProp(p, "frozen")
		}
		if strings.Contains(want, "major=-2") {
			want, desc = stripMajor(want), stripMajor(desc)
		}
		if want != "" && want != desc {
			bad("{%s}, committed {%s}", desc, want)
		}
		w.Probes.Hit("query.judged.proposal")
	}
}

// ---- restart and crash-forks ----------------------------------------------------------------------

func (w *World) boundaryFaults(h int64, step *BlockStep) {
	for _, f := range step.Faults {
		if f.Kind != "restart" || f.Replica < 0 || f.Replica >= len(w.Reps) {
			continue
		}
		r := w.Reps[f.Replica]
		if r == nil || r.closed || r.State.LastBlockHeight != h {
			continue
		}
		w.Probes.Hit("fault.restart")
		if f.Replica == 0 {
			w.Probes.Hit("fault.restart-leader")
		}
		w.noteRestartContext(h)
		r.StopGracefully()
		r.Close()
		nr, err := OpenReplica(r.Name, r.Root, w.GenDoc, r.StateDB, r.BlockDB, w.onYield, w.onCommitPoint)
		nr.Results = r.Results
		w.Reps[f.Replica] = nr
		if w.restarted == nil {
			w.restarted = map[int]bool{}
		}
		w.restarted[f.Replica] = true
		if err != nil {
			w.reportOpenError(nr, err, h, "restart after block")
			return
		}
		w.checkReopened(nr, h, "restart", []string{"C07"})
	}
}

func (w *World) noteRestartContext(h int64) {
	if w.Probes.C["valset.changed"] > w.lastVSChanged {
		w.Probes.Hit("restart.after-valset-change")
	}
	w.lastVSChanged = w.Probes.C["valset.changed"]
	if h%10 == 0 {
		w.Probes.Hit("restart.at-reward-hash-height")
	}
}

// checkReopened: the reopened node must report exactly the block it was stopped after.
func (w *World) checkReopened(r *Replica, h int64, origin string, props []string) {
	info, err := r.Info()
	if err != nil {
		w.reportOpenError(r, err, h, origin)
		return
	}
	want := w.leader().Results[h]
	if info.LastBlockHeight != h {
		w.violate("reopen.height", props, h, "%s (%s): reports height %d, expected %d", r.Name, origin, info.LastBlockHeight, h)
		w.Fatal = true
		return
	}
	if want != nil && !bytes.Equal(info.LastBlockAppHash, want.AppHash) {
		w.violate("reopen.apphash", props, h, "%s (%s): reports app hash %x, block %d committed %x", r.Name, origin, info.LastBlockAppHash, h, want.AppHash)
	}
	w.logf("R %s %s h=%d app=%x", r.Name, origin, info.LastBlockHeight, info.LastBlockAppHash)
}

// openPendingForks recovers the crash images that are due: an image taken during block H whose recovered
// node is to follow F blocks is opened when block H+F has been produced (or when the world ends), recovered
// through the real handshake, fed the blocks up to there and closed again. One image is open at a time: an
// application instance holds tens of megabytes of store caches and a block with 15 transactions yields some
// fifty images.
func (w *World) openPendingForks(h int64) {
	w.processForks(h, false)
}

// finishForks: the world is over; whatever image is still waiting is recovered against the chain as it stands.
func (w *World) finishForks() {
	if len(w.pending) == 0 || len(w.Chain) == 0 {
		return
	}
	// only blocks the producer itself completed (the last one in the chain may be the block it refused, e.g.
	// the one that would have emptied the validator set)
	h := int64(len(w.Chain))
	if l := w.leader(); l != nil && l.State.LastBlockHeight < h {
		h = l.State.LastBlockHeight
	}
	if h < 1 {
		return
	}
	w.processForks(h, true)
}

func (w *World) processForks(h int64, all bool) {
	var keep []*pendingFork
	due := w.pending
	w.pending = nil
	for round := 0; round < 3 && len(due) > 0; round++ {
		var now []*pendingFork
		for _, pf := range due {
			follow := int64(pf.Fault.Follow)
			if follow <= 0 {
				follow = 3
			}
			if !all && pf.Height+follow > h {
				keep = append(keep, pf)
				continue
			}
			now = append(now, pf)
		}
		w.pending = now
		w.openPendingRound(h)
		due = w.pending // images taken during those recoveries (crash during recovery)
		w.pending = nil
	}
	w.pending = keep
}

func (w *World) openPendingRound(h int64) {
	pend := w.pending
	w.pending = nil
	for _, pf := range pend {
		name := fmt.Sprintf("K%d", len(w.Forks)+1)
		origin := fmt.Sprintf("crash at %s of block %d", pf.Point, pf.Height)
		var yieldFn func(r *Replica, point string)
		var cwFn func(r *Replica, name string, v int64)
		if pf.Fault.Again != "" {
			// second crash while the recovering node replays the interrupted block (handshake)
			taken := false
			cw := 0
			take := func(r *Replica, point string) {
				if taken {
					return
				}
				taken = true
				w.forkSeq++
				img, err := r.Fork(filepath.Join(w.Base, fmt.Sprintf("fork%d", w.forkSeq)))
				if err != nil {
					return
				}
				f2 := pf.Fault
				f2.Again = ""
				w.pending = append(w.pending, &pendingFork{Img: img, Fault: f2, Height: pf.Height, Point: pf.Point + " and again at " + point + " of the replay", From: pf.From})
				w.Probes.Hit("fault.crash-during-recovery")
			}
			yieldFn = func(r *Replica, point string) {
				if point == "commit.pre" {
					cw = 0
				}
				if point == pf.Fault.Again {
					take(r, point)
				}
			}
			cwFn = func(r *Replica, name string, v int64) {
				cw++
				if fmt.Sprintf("cw:%d", cw) == pf.Fault.Again {
					take(r, fmt.Sprintf("cw:%d(%s)", cw, name))
				}
			}
		}
		r, err := OpenReplica(name, pf.Img.Root, w.GenDoc, pf.Img.StateDB, pf.Img.BlockDB, yieldFn, cwFn)
		r.Yield, r.CommitPoint = nil, nil
		fr := &forkRep{R: r, Origin: origin}
		follow := pf.Fault.Follow
		if follow <= 0 {
			follow = 3
		}
		fr.Until = h + int64(follow)
		w.Forks = append(w.Forks, fr)
		pc := pointClass(pf.Point)
		if err != nil {
			w.Probes.Hit("crashrecovery.fail." + pc)
			detail := err.Error()
			if strings.Contains(detail, "would result in empty set") {
				// the workload removed the last validator in the interrupted block (outside the statement)
				w.Probes.Hit("valset.empty-attempt")
				r.Close()
				fr.R = nil
				continue
			}
			shape := "crash-mid-commit"
			if !strings.HasPrefix(pc, "cw(") {
				shape = "crash-at-boundary"
			}
			var v *Violation
			if pe, ok := err.(*PanicError); ok {
				v = w.violate("crash.panic", []string{"C08"}, pf.Height, "%s: restart panics: %s @ %s", origin, pe.Val, pe.Stack)
			} else {
				v = w.violate("crash.error", []string{"C08"}, pf.Height, "%s: restart fails: %s", origin, detail)
			}
			v.Shape = shape + ":" + pc
			r.Close()
			fr.R = nil
			continue
		}
		// after the handshake (incl. replay of the interrupted block) the node must stand at the
		// interrupted block or the one before, and agree with the node that never crashed
		got := r.State.LastBlockHeight
		if got != pf.Height && got != pf.Height-1 {
			w.violate("crash.height", []string{"C08"}, pf.Height, "%s: after recovery the node is at height %d", origin, got)
			r.Close()
			fr.R = nil
			continue
		}
		if res := w.leader().Results[got]; res != nil && !bytes.Equal(r.State.AppHash, res.AppHash) {
			w.violate("crash.apphash", []string{"C08"}, pf.Height, "%s: recovered at height %d with app hash %x, never-crashed node has %x", origin, got, r.State.AppHash, res.AppHash)
			r.Close()
			fr.R = nil
			continue
		}
		w.Probes.Hit("crashrecovery.ok." + pc)
		w.logf("K %s recovered at %d", origin, got)
		w.followFork(fr, h)
		if fr.R != nil {
			fr.R.Close()
			_ = removeAll(fr.R.Root)
			fr.R = nil
		}
	}
}

func (w *World) followFork(f *forkRep, h int64) {
	r := f.R
	for r.State.LastBlockHeight < h {
		nh := r.State.LastBlockHeight + 1
		cb := w.Chain[nh-1]
		saved := w.cur
		w.cur = nil
		err := r.ApplyBlock(cb.Block, cb.Parts, cb.Commit)
		w.cur = saved
		if err != nil {
			if pe, ok := err.(*PanicError); ok {
				w.violate("crash.follow-panic", []string{"C08"}, nh, "%s: applying block %d afterwards panics: %s @ %s", f.Origin, nh, pe.Val, pe.Stack)
			} else if strings.Contains(err.Error(), "would result in empty set") {
				// the workload removed the last validator in that block (outside the statement); nothing to follow
				w.Probes.Hit("valset.empty-attempt")
			} else {
				props := []string{"C08"}
				if strings.Contains(err.Error(), "ValidatorsHash") {
					props = append(props, "C10") // the fold of the validator updates differs from the never-crashed node's
				}
				w.violate("crash.follow-diverged", props, nh, "%s: cannot apply block %d afterwards: %v", f.Origin, nh, err)
			}
			r.Close()
			f.R = nil
			return
		}
		a, b := w.leader().Results[nh], r.Results[nh]
		if a != nil && b != nil {
			if !bytes.Equal(a.AppHash, b.AppHash) {
				w.violate("crash.follow-apphash", []string{"C08"}, nh, "%s: app hash at %d is %x, never-crashed node has %x", f.Origin, nh, b.AppHash, a.AppHash)
			}
			if digestValUpdates(a.EndBlock.ValidatorUpdates) != digestValUpdates(b.EndBlock.ValidatorUpdates) {
				w.violate("crash.follow-valupdates", []string{"C08", "C07", "C10"}, nh, "%s: validator updates at %d differ: %s vs %s", f.Origin, nh, digestValUpdates(b.EndBlock.ValidatorUpdates), digestValUpdates(a.EndBlock.ValidatorUpdates))
			}
		}
	}
}

func (w *World) retireForks(h int64) {
	for _, f := range w.Forks {
		if f.R != nil && !f.R.closed && h >= f.Until {
			f.R.Close()
			_ = removeAll(f.R.Root)
			f.R = nil // let the image's stores and application go (hundreds of images per world in the thorough tier)
		}
	}
}

func removeAll(p string) error {
	if p == "" || p == "/" || !strings.Contains(p, "verif") {
		return nil
	}
	return removeTree(filepath.Clean(p))
}

func canonicalJSON(b []byte) []byte {
	var v interface{}
	if len(b) == 0 || json.Unmarshal(b, &v) != nil {
		return b
	}
	c, err := json.Marshal(v)
	if err != nil {
		return b
	}
	return c
}

// judgeVmCall: a read-only contract call at height h must equal the reference EVM's read-only call on
// the world committed at h (code and storage of h, native balances and nonces of h, block time of h).
func (w *World) judgeVmCall(r *Replica, data []byte, h int64, res *abci.ResponseQuery, point string, bad func(string, ...interface{})) {
	if len(data) < 40 || !w.Tr.Cfg.EVM {
		return
	}
	snap := w.M.Snaps[h]
	st := w.M.StateAt(h)
	if snap == nil || st == nil || h < 1 {
		return
	}
	from, to := ToAddr(data[:20]), ToAddr(data[20:40])
	var toP *Addr
	if to != (Addr{}) {
		toP = &to
	}
	// listed findings change what the node's EVM sees at these addresses (see known_findings.json)
	if w.M.Inner[to] || w.M.Destroyed[to] {
		return
	}
	ref, err := RefCall(st, h, snap.BlockTime, from, toP, data[40:])
	if res.Code != 0 {
		if err == nil {
			bad("node answers error code %d (%s), reference call succeeds (gas %d)", res.Code, res.Log, ref.UsedGas)
		}
		return
	}
	if err != nil {
		bad("node answers, reference call is not applicable: %v", err)
		return
	}
	var d struct {
		UsedGas    interface{} `json:"usedGas"`
		ReturnData []byte      `json:"returnData"`
		Err        string      `json:"vmErr"`
	}
	var raw map[string]interface{}
	if json.Unmarshal(res.Value, &raw) != nil {
		bad("undecodable %s", res.Value)
		return
	}
	_ = d
	var gotGas int64
	var gotRet []byte
	for k, v := range raw {
		lk := strings.ToLower(k)
		switch {
		case strings.Contains(lk, "gas"):
			gotGas, _ = jnum(v)
		case strings.Contains(lk, "return") || strings.Contains(lk, "data"):
			if s, ok := v.(string); ok {
				if b, err := base64.StdEncoding.DecodeString(s); err == nil {
					gotRet = b
				} else if b, err := hex.DecodeString(s); err == nil {
					gotRet = b
				}
			}
		}
	}
	gotErr, _ := raw["vmErr"].(string)
	if (gotErr != "") != (ref.Err != nil) {
		bad("read-only call %s -> %s: node vm error %q, reference %v", from.Hex(), to.Hex(), gotErr, ref.Err)
		return
	}
	if uint64(gotGas) != ref.UsedGas || !bytes.Equal(gotRet, ref.ReturnData) {
		dbg := ""
		if os.Getenv("VERIF_DEBUG") != "" {
			cands := []Addr{to}
			if len(data) >= 72 {
				cands = append(cands, ToAddr(data[52:72]))
			}
			if len(data) >= 40+6*32 {
				cands = append(cands, ToAddr(data[40+5*32+12:40+6*32]))
			}
			st2 := w.M.StateAt(h)
			for _, a := range cands {
				q, _ := r.Query("account", a[:], h)
				dbg += fmt.Sprintf(" [%s model bal=%s nonce=%d code=%d destroyed=%v inner=%v node=%s]", a.Hex(), st2.GetBalance(common.Address(a)), st2.GetNonce(common.Address(a)), len(st2.GetCode(common.Address(a))), w.M.Destroyed[a], w.M.Inner[a], q.Value)
			}
		}
		bad("read-only call %s -> %s: node gas %d ret %x, reference gas %d ret %x%s", from.Hex(), to.Hex(), gotGas, gotRet, ref.UsedGas, ref.ReturnData, dbg)
	}
	w.Probes.Hit("query.judged.vm_call")
}

