package chain

import (
	"encoding/hex"
	"fmt"
	"math/big"
	"sort"

	"github.com/ethereum/go-ethereum/common"
	"github.com/ethereum/go-ethereum/core/rawdb"
	"github.com/ethereum/go-ethereum/core/state"
)

// ---------------------------------------------------------------------------------------------
// Reference model. Written from the property statements; the implementation's constants are not
// mirrored, except the chain-specific EVM environment (see evmref.go).
// ---------------------------------------------------------------------------------------------

type Addr [20]byte

func (a Addr) Hex() string   { return hex.EncodeToString(a[:]) }
func (a Addr) Bytes() []byte { return append([]byte(nil), a[:]...) }
func ToAddr(b []byte) Addr {
	var a Addr
	copy(a[:], b)
	return a
}

var big1e18 = new(big.Int).Exp(big.NewInt(10), big.NewInt(18), nil)

func powerToAmt(p int64) *big.Int { return new(big.Int).Mul(big.NewInt(p), big1e18) }

// GovP are the governance parameters (the model's view).
type GovP struct {
	Version                 int64    `json:"version"`
	MaxValidatorCnt         int64    `json:"maxValidatorCnt"`
	MinValidatorStake       *big.Int `json:"minValidatorStake"`
	MinDelegatorStake       *big.Int `json:"minDelegatorStake"`
	RewardPerPower          *big.Int `json:"rewardPerPower"`
	LazyRewardBlocks        int64    `json:"lazyRewardBlocks"`
	LazyApplyingBlocks      int64    `json:"lazyApplyingBlocks"`
	GasPrice                *big.Int `json:"gasPrice"`
	MinTrxGas               uint64   `json:"minTrxGas"`
	MaxTrxGas               uint64   `json:"maxTrxGas"`
	MaxBlockGas             uint64   `json:"maxBlockGas"`
	MinVotingPeriodBlocks   int64    `json:"minVotingPeriodBlocks"`
	MaxVotingPeriodBlocks   int64    `json:"maxVotingPeriodBlocks"`
	MinSelfStakeRatio       int64    `json:"minSelfStakeRatio"`
	MaxUpdatableStakeRatio  int64    `json:"maxUpdatableStakeRatio"`
	MaxIndividualStakeRatio int64    `json:"maxIndividualStakeRatio"`
	SlashRatio              int64    `json:"slashRatio"`
	SignedBlocksWindow      int64    `json:"signedBlocksWindow"`
	MinSignedBlocks         int64    `json:"minSignedBlocks"`
}

func (g GovP) Clone() GovP {
	c := g
	c.MinValidatorStake = new(big.Int).Set(g.MinValidatorStake)
	c.MinDelegatorStake = new(big.Int).Set(g.MinDelegatorStake)
	c.RewardPerPower = new(big.Int).Set(g.RewardPerPower)
	c.GasPrice = new(big.Int).Set(g.GasPrice)
	return c
}

// Doc renders the parameters (or a subset: only non-nil / listed keys) as the JSON document
// format that governance options and the genesis use.
func (g GovP) Doc() string {
	return fmt.Sprintf(`{"version":"%d","maxValidatorCnt":"%d","minValidatorStake":"%s","minDelegatorStake":"%s","rewardPerPower":"%s","lazyRewardBlocks":"%d","lazyApplyingBlocks":"%d","gasPrice":"%s","minTrxGas":"%d","maxTrxGas":"%d","maxBlockGas":"%d","minVotingPeriodBlocks":"%d","maxVotingPeriodBlocks":"%d","minSelfStakeRatio":"%d","maxUpdatableStakeRatio":"%d","maxIndividualStakeRatio":"%d","slashRatio":"%d","signedBlocksWindow":"%d","minSignedBlocks":"%d"}`,
		g.Version, g.MaxValidatorCnt, g.MinValidatorStake, g.MinDelegatorStake, g.RewardPerPower, g.LazyRewardBlocks, g.LazyApplyingBlocks,
		g.GasPrice, g.MinTrxGas, g.MaxTrxGas, g.MaxBlockGas, g.MinVotingPeriodBlocks, g.MaxVotingPeriodBlocks, g.MinSelfStakeRatio,
		g.MaxUpdatableStakeRatio, g.MaxIndividualStakeRatio, g.SlashRatio, g.SignedBlocksWindow, g.MinSignedBlocks)
}

type MStake struct {
	ID     string // hex of the creating tx hash (genesis stakes: 64 zeros)
	Owner  Addr
	To     Addr
	Power  int64
	Refund int64 // set when unbonding
	Seq    int   // creation sequence number in the harness (unique, also for genesis stakes)
}

type MDeleg struct {
	Addr   Addr
	PubKey []byte
	Stakes []*MStake
	Missed []int64
}

func (d *MDeleg) Total() int64 {
	t := int64(0)
	for _, s := range d.Stakes {
		t += s.Power
	}
	return t
}
func (d *MDeleg) Self() int64 {
	t := int64(0)
	for _, s := range d.Stakes {
		if s.Owner == d.Addr {
			t += s.Power
		}
	}
	return t
}
func (d *MDeleg) clone() *MDeleg {
	c := &MDeleg{Addr: d.Addr, PubKey: d.PubKey, Missed: append([]int64(nil), d.Missed...)}
	for _, s := range d.Stakes {
		cs := *s
		c.Stakes = append(c.Stakes, &cs)
	}
	return c
}

type MVoter struct {
	Power  int64
	Choice int32
}

type MProp struct {
	ID       string
	Start    int64
	End      int64
	Apply    int64
	OptType  int32
	Options  [][]byte
	Voters   map[Addr]*MVoter
	Total    int64
	Major    int // index of winning option once frozen, else -1
	FrozenAt int64
}

func (p *MProp) Majority() int64 { return p.Total * 2 / 3 }
func (p *MProp) Tally() []int64 {
	t := make([]int64, len(p.Options))
	for _, v := range p.Voters {
		if v.Choice >= 0 && int(v.Choice) < len(t) {
			t[v.Choice] += v.Power
		}
	}
	return t
}
func (p *MProp) clone() *MProp {
	c := *p
	c.Voters = map[Addr]*MVoter{}
	for a, v := range p.Voters {
		cv := *v
		c.Voters[a] = &cv
	}
	return &c
}

type MMeta struct {
	Name string
	Doc  string
}

// Snapshot is the model state committed at one height.
type Snapshot struct {
	H           int64
	Gov         GovP
	Root        common.Hash
	Meta        map[Addr]MMeta
	Known       map[Addr]bool
	Delegs      map[Addr]*MDeleg
	Frozen      []*MStake
	Claims      map[Addr]*big.Int
	Props       map[string]*MProp
	FrozenProps map[string]*MProp
	BlockTime   int64
}

type Model struct {
	H     int64
	Gov   GovP
	wdb   state.Database
	W     *state.StateDB
	Meta  map[Addr]MMeta
	Known map[Addr]bool

	Delegs      map[Addr]*MDeleg
	Frozen      []*MStake
	Claims      map[Addr]*big.Int
	Props       map[string]*MProp
	FrozenProps map[string]*MProp
	PendingGov  *GovP // parameters decided in this block, active from the next

	GenesisTotal *big.Int
	Withdrawn    *big.Int
	SlashBurn    *big.Int
	EvmBurn      *big.Int

	StakeSeq        int
	AllStakes       []*MStake // every stake ever created (pointer shared with Delegs/Frozen while alive)
	Refunded        map[int]bool
	PropOrder       []string
	Executed        map[string]int64 // tx bytes (hex of hash) -> height of success
	Snaps           map[int64]*Snapshot
	Contracts       []Addr        // contract addresses in creation order (top-level deployments)
	Deployed        map[Addr]bool // addresses created by successful deployment transactions
	Inner           map[Addr]bool // contracts created by contracts
	InnerList       []Addr
	Destroyed       map[Addr]bool // contracts that self-destructed
	GenesisInFlight int           // genesis stakes that were unbonding at the start or the end of the current block
	ChainID         string
}

func NewModel(chainID string, gov GovP) *Model {
	wdb := state.NewDatabase(rawdb.NewMemoryDatabase())
	w, err := state.New(common.Hash{}, wdb, nil)
	if err != nil {
		panic(err)
	}
	return &Model{
		Gov: gov.Clone(), wdb: wdb, W: w, ChainID: chainID,
		Meta: map[Addr]MMeta{}, Known: map[Addr]bool{},
		Delegs: map[Addr]*MDeleg{}, Claims: map[Addr]*big.Int{},
		Props: map[string]*MProp{}, FrozenProps: map[string]*MProp{},
		GenesisTotal: new(big.Int), Withdrawn: new(big.Int), SlashBurn: new(big.Int), EvmBurn: new(big.Int),
		Refunded: map[int]bool{}, Executed: map[string]int64{}, Snaps: map[int64]*Snapshot{}, Deployed: map[Addr]bool{}, Inner: map[Addr]bool{}, Destroyed: map[Addr]bool{},
	}
}

func (m *Model) Balance(a Addr) *big.Int { return new(big.Int).Set(m.W.GetBalance(common.Address(a))) }
func (m *Model) Nonce(a Addr) uint64     { return m.W.GetNonce(common.Address(a)) }
func (m *Model) AddBalance(a Addr, v *big.Int) {
	m.Known[a] = true
	m.W.AddBalance(common.Address(a), v)
}
func (m *Model) SubBalance(a Addr, v *big.Int) { m.W.SubBalance(common.Address(a), v) }
func (m *Model) IsContract(a Addr) bool        { return len(m.W.GetCode(common.Address(a))) > 0 }

func (m *Model) Claim(a Addr) *big.Int {
	if c, ok := m.Claims[a]; ok {
		return c
	}
	return new(big.Int)
}

// InitGenesis: balances and validators (self stakes whose value is not taken from any balance).
func (m *Model) InitGenesis(holders map[Addr]*big.Int, vals []GenVal) {
	for _, a := range sortedAddrs(holders) {
		m.AddBalance(a, holders[a])
		m.GenesisTotal.Add(m.GenesisTotal, holders[a])
	}
	for _, v := range vals {
		m.Known[v.Addr] = true
		if !m.W.Exist(common.Address(v.Addr)) {
			m.W.AddBalance(common.Address(v.Addr), new(big.Int))
		}
		st := &MStake{ID: zeroHashHex, Owner: v.Addr, To: v.Addr, Power: v.Power, Seq: m.StakeSeq}
		m.StakeSeq++
		m.AllStakes = append(m.AllStakes, st)
		m.Delegs[v.Addr] = &MDeleg{Addr: v.Addr, PubKey: v.PubKey, Stakes: []*MStake{st}}
		m.GenesisTotal.Add(m.GenesisTotal, powerToAmt(v.Power))
	}
	m.commitSnapshot(0, 0)
}

var zeroHashHex = hex.EncodeToString(make([]byte, 32))

type GenVal struct {
	Addr   Addr
	PubKey []byte
	Power  int64
}

func sortedAddrs[T any](mp map[Addr]T) []Addr {
	out := make([]Addr, 0, len(mp))
	for a := range mp {
		out = append(out, a)
	}
	sort.Slice(out, func(i, j int) bool { return string(out[i][:]) < string(out[j][:]) })
	return out
}

func sortedKeys[T any](mp map[string]T) []string {
	out := make([]string, 0, len(mp))
	for a := range mp {
		out = append(out, a)
	}
	sort.Strings(out)
	return out
}

func (m *Model) commitSnapshot(h int64, blockTime int64) {
	root, err := m.W.Commit(true)
	if err != nil {
		panic(err)
	}
	if err := m.wdb.TrieDB().Commit(root, false, nil); err != nil {
		panic(err)
	}
	w, err := state.New(root, m.wdb, nil)
	if err != nil {
		panic(err)
	}
	m.W = w
	s := &Snapshot{H: h, Gov: m.Gov.Clone(), Root: root, BlockTime: blockTime,
		Meta: map[Addr]MMeta{}, Known: map[Addr]bool{}, Delegs: map[Addr]*MDeleg{}, Claims: map[Addr]*big.Int{},
		Props: map[string]*MProp{}, FrozenProps: map[string]*MProp{}}
	for a, v := range m.Meta {
		s.Meta[a] = v
	}
	for a := range m.Known {
		s.Known[a] = true
	}
	for a, d := range m.Delegs {
		s.Delegs[a] = d.clone()
	}
	for _, f := range m.Frozen {
		c := *f
		s.Frozen = append(s.Frozen, &c)
	}
	for a, c := range m.Claims {
		s.Claims[a] = new(big.Int).Set(c)
	}
	for k, p := range m.Props {
		s.Props[k] = p.clone()
	}
	for k, p := range m.FrozenProps {
		s.FrozenProps[k] = p.clone()
	}
	m.Snaps[h] = s
	m.H = h
}

// StateAt opens the reference EVM world committed at height h (read-only use).
func (m *Model) StateAt(h int64) *state.StateDB {
	s := m.Snaps[h]
	if s == nil {
		return nil
	}
	w, err := state.New(s.Root, m.wdb, nil)
	if err != nil {
		panic(err)
	}
	return w
}

// ---- block-level rules -------------------------------------------------------------------

// SlashResult describes what one piece of evidence did in the model.
type SlashResult struct {
	Known  bool
	Burned int64
}

// ApplyEvidence applies the slashing rule for one piece of evidence against validator v.
func (m *Model) ApplyEvidence(v Addr, probes *Probes) SlashResult {
	ratio := m.Gov.SlashRatio
	res := SlashResult{}
	// open proposals: the voter's weight shrinks by the same percentage
	for _, id := range sortedKeys(m.Props) {
		p := m.Props[id]
		vt, ok := p.Voters[v]
		if !ok {
			continue
		}
		cut := vt.Power * ratio / 100
		vt.Power -= cut
		p.Total -= cut
		if vt.Power <= 0 {
			delete(p.Voters, v)
		}
	}
	d, ok := m.Delegs[v]
	if !ok {
		return res
	}
	res.Known = true
	var keep []*MStake
	for _, s := range d.Stakes {
		cut := s.Power * ratio / 100
		if cut < 1 {
			// too small to be reduced: forfeited entirely
			res.Burned += s.Power
			m.SlashBurn.Add(m.SlashBurn, powerToAmt(s.Power))
			s.Power = 0
			m.Refunded[s.Seq] = true // gone for good
			probes.Hit("slash.forfeit")
			continue
		}
		s.Power -= cut
		res.Burned += cut
		m.SlashBurn.Add(m.SlashBurn, powerToAmt(cut))
		keep = append(keep, s)
	}
	d.Stakes = keep
	if len(d.Stakes) == 0 {
		// nothing left bonded: the delegatee record has no power any more
		probes.Hit("slash.emptied")
	}
	return res
}

// Reward issues rewards for one validator that signed the previous block, based on the
// delegatee record committed at height base.
func (m *Model) Reward(v Addr, base int64) *big.Int {
	issued := new(big.Int)
	s := m.Snaps[base]
	if s == nil {
		return issued
	}
	d := s.Delegs[v]
	if d == nil {
		return issued
	}
	for _, st := range d.Stakes {
		r := new(big.Int).Mul(big.NewInt(st.Power), m.Gov.RewardPerPower)
		c, ok := m.Claims[st.Owner]
		if !ok {
			c = new(big.Int)
			m.Claims[st.Owner] = c
		}
		c.Add(c, r)
		issued.Add(issued, r)
	}
	return issued
}

// Jail moves all stakes bonded to v into unbonding (refund after the period in force) and
// removes it from the delegatees.
func (m *Model) Jail(v Addr, h int64) {
	d := m.Delegs[v]
	if d == nil {
		return
	}
	for _, s := range d.Stakes {
		s.Refund = h + m.Gov.LazyRewardBlocks
		m.Frozen = append(m.Frozen, s)
	}
	delete(m.Delegs, v)
}

// Refunds credits matured unbonding stakes (those already unbonding when the block started).
func (m *Model) Refunds(h int64, startFrozen map[int]bool) int {
	n := 0
	var keep []*MStake
	for _, s := range m.Frozen {
		if startFrozen[s.Seq] && s.Refund <= h {
			m.AddBalance(s.Owner, powerToAmt(s.Power))
			m.Refunded[s.Seq] = true
			n++
			continue
		}
		keep = append(keep, s)
	}
	m.Frozen = keep
	return n
}

// ExpectedValidators is the selection rule of C10 applied to the state committed at height h.
// It returns the candidates sorted by rank and the number of seats; ties at the boundary are
// reported so that the caller can be lenient about them.
type Cand struct {
	Addr  Addr
	Power int64
}

func (s *Snapshot) Candidates(minStake *big.Int) []Cand {
	var cs []Cand
	for _, a := range sortedAddrs(s.Delegs) {
		d := s.Delegs[a]
		if powerToAmt(d.Self()).Cmp(minStake) >= 0 && d.Total() >= 0 {
			cs = append(cs, Cand{a, d.Total()})
		}
	}
	sort.SliceStable(cs, func(i, j int) bool { return cs[i].Power > cs[j].Power })
	return cs
}
