package chain

import (
	"fmt"
	"io"
	"os"
	"path/filepath"
	"runtime/debug"
	"sort"
	"strings"
	"time"

	rcfg "github.com/rigochain/rigo-go/cmd/config"
	"github.com/rigochain/rigo-go/libs/verifhook"
	"github.com/rigochain/rigo-go/node"
	abcicli "github.com/tendermint/tendermint/abci/client"
	abci "github.com/tendermint/tendermint/abci/types"
	tmcons "github.com/tendermint/tendermint/consensus"
	tmlog "github.com/tendermint/tendermint/libs/log"
	mempl "github.com/tendermint/tendermint/mempool"
	"github.com/tendermint/tendermint/proxy"
	tmrpccore "github.com/tendermint/tendermint/rpc/core"
	sm "github.com/tendermint/tendermint/state"
	"github.com/tendermint/tendermint/store"
	tmtypes "github.com/tendermint/tendermint/types"
	dbm "github.com/tendermint/tm-db"
)

// PanicError marks an error that stems from a recovered panic inside the system under test.
type PanicError struct {
	Where string
	Val   string
	Stack string
}

func (p *PanicError) Error() string { return fmt.Sprintf("panic in %s: %s", p.Where, p.Val) }

func guard(where string, fn func() error) (err error) {
	defer func() {
		if r := recover(); r != nil {
			st := string(debug.Stack())
			err = &PanicError{Where: where, Val: fmt.Sprint(r), Stack: trimStack(st)}
		}
	}()
	return fn()
}

func trimStack(s string) string {
	lines := strings.Split(s, "\n")
	var keep []string
	for _, l := range lines {
		if strings.Contains(l, "rigo-go") || strings.Contains(l, "/repo/") {
			l = strings.TrimSpace(l)
			// no addresses or argument values: the event log must be identical in every process
			if i := strings.Index(l, "("); i >= 0 && !strings.HasPrefix(l, "/") {
				if j := strings.LastIndex(l, "("); j > i {
					l = l[:j]
				}
			}
			if i := strings.Index(l, " +0x"); i >= 0 {
				l = l[:i]
			}
			keep = append(keep, l)
		}
		if len(keep) >= 12 {
			break
		}
	}
	return strings.Join(keep, " | ")
}

// BlockResult is what a replica answered on the consensus connection for one block.
type BlockResult struct {
	Height     int64
	BeginBlock *abci.ResponseBeginBlock
	DeliverTxs []*abci.ResponseDeliverTx
	EndBlock   *abci.ResponseEndBlock
	AppHash    []byte
}

// Replica is one node: the real application behind the real ABCI connections, driven by the
// real Tendermint block executor over in-memory Tendermint stores.
type Replica struct {
	Name    string
	Root    string
	GenDoc  *tmtypes.GenesisDoc
	App     *node.RigoApp
	conns   proxy.AppConns
	StateDB *dbm.MemDB
	BlockDB *dbm.MemDB

	StateStore sm.Store
	BlockStore *store.BlockStore
	State      sm.State
	exec       *sm.BlockExecutor

	// Yield is called at every yield point with the point's name. Set by the world.
	Yield func(r *Replica, point string)
	// CommitPoint is called after each durable write inside the application's Commit.
	CommitPoint func(r *Replica, name string, v int64)

	MempoolLocked bool
	cur           *BlockResult
	Results       map[int64]*BlockResult
	closed        bool
	Quiet         bool // no yields are forwarded (used while replaying in handshake unless wanted)
}

var committing *Replica // replica currently inside CommitSync (single goroutine)

func init() {
	verifhook.OnPoint = func(name string, v int64) {
		if r := committing; r != nil && r.CommitPoint != nil {
			r.CommitPoint(r, name, v)
		}
	}
}

func (r *Replica) yield(p string) {
	if r.Yield != nil && !r.Quiet {
		r.Yield(r, p)
	}
}

type simConns struct {
	proxy.AppConns
	cons *simConsensusConn
}

func (s *simConns) Consensus() proxy.AppConnConsensus { return s.cons }

type simConsensusConn struct {
	inner proxy.AppConnConsensus
	r     *Replica
	cb    abcicli.Callback
	txi   int
}

func (c *simConsensusConn) SetResponseCallback(cb abcicli.Callback) {
	c.cb = cb
	c.inner.SetResponseCallback(func(req *abci.Request, res *abci.Response) {
		if d := res.GetDeliverTx(); d != nil && c.r.cur != nil {
			c.r.cur.DeliverTxs = append(c.r.cur.DeliverTxs, d)
		}
		if c.cb != nil {
			c.cb(req, res)
		}
	})
}
func (c *simConsensusConn) Error() error { return c.inner.Error() }
func (c *simConsensusConn) InitChainSync(req abci.RequestInitChain) (*abci.ResponseInitChain, error) {
	return c.inner.InitChainSync(req)
}
func (c *simConsensusConn) BeginBlockSync(req abci.RequestBeginBlock) (*abci.ResponseBeginBlock, error) {
	c.r.cur = &BlockResult{Height: req.Header.Height}
	c.txi = 0
	c.r.yield("bb.pre")
	res, err := c.inner.BeginBlockSync(req)
	c.r.cur.BeginBlock = res
	c.r.yield("bb")
	return res, err
}
func (c *simConsensusConn) DeliverTxAsync(req abci.RequestDeliverTx) *abcicli.ReqRes {
	rr := c.inner.DeliverTxAsync(req)
	c.r.yield(fmt.Sprintf("tx:%d", c.txi))
	c.txi++
	return rr
}
func (c *simConsensusConn) EndBlockSync(req abci.RequestEndBlock) (*abci.ResponseEndBlock, error) {
	res, err := c.inner.EndBlockSync(req)
	if c.r.cur != nil {
		c.r.cur.EndBlock = res
	}
	c.r.yield("eb")
	return res, err
}
func (c *simConsensusConn) CommitSync() (*abci.ResponseCommit, error) {
	c.r.yield("commit.pre")
	committing = c.r
	res, err := c.inner.CommitSync()
	committing = nil
	if res != nil && c.r.cur != nil {
		c.r.cur.AppHash = append([]byte(nil), res.Data...)
		c.r.Results[c.r.cur.Height] = c.r.cur
	}
	c.r.yield("commit.post")
	return res, err
}

type simMempool struct{ r *Replica }

func (m *simMempool) CheckTx(tx tmtypes.Tx, cb func(*abci.Response), txInfo mempl.TxInfo) error {
	return nil
}
func (m *simMempool) RemoveTxByKey(txKey tmtypes.TxKey) error               { return nil }
func (m *simMempool) ReapMaxBytesMaxGas(maxBytes, maxGas int64) tmtypes.Txs { return nil }
func (m *simMempool) ReapMaxTxs(max int) tmtypes.Txs                        { return nil }
func (m *simMempool) Lock()                                                 { m.r.MempoolLocked = true }
func (m *simMempool) Unlock()                                               { m.r.MempoolLocked = false }
func (m *simMempool) Update(h int64, txs tmtypes.Txs, res []*abci.ResponseDeliverTx, pre mempl.PreCheckFunc, post mempl.PostCheckFunc) error {
	m.r.yield("mp.update")
	return nil
}
func (m *simMempool) FlushAppConn() error           { return m.r.conns.Mempool().FlushSync() }
func (m *simMempool) Flush()                        {}
func (m *simMempool) TxsAvailable() <-chan struct{} { return nil }
func (m *simMempool) EnableTxsAvailable()           {}
func (m *simMempool) Size() int                     { return 0 }
func (m *simMempool) SizeBytes() int64              { return 0 }

// OpenReplica constructs a node on `root` exactly as the production node does (application,
// ABCI connections, state from store or genesis, real handshake incl. replay).
// stateDB/blockDB may be nil for a fresh node.
func OpenReplica(name, root string, genDoc *tmtypes.GenesisDoc, stateDB, blockDB *dbm.MemDB,
	yield func(r *Replica, point string), commitPoint func(r *Replica, name string, v int64)) (*Replica, error) {
	if stateDB == nil {
		stateDB = dbm.NewMemDB()
	}
	if blockDB == nil {
		blockDB = dbm.NewMemDB()
	}
	r := &Replica{Name: name, Root: root, GenDoc: genDoc, StateDB: stateDB, BlockDB: blockDB,
		Results: map[int64]*BlockResult{}, Yield: yield, CommitPoint: commitPoint}
	err := guard("open", func() error {
		if err := os.MkdirAll(filepath.Join(root, "data"), 0o755); err != nil {
			return err
		}
		if err := os.MkdirAll(filepath.Join(root, "config"), 0o755); err != nil {
			return err
		}
		cfg := rcfg.DefaultConfig()
		cfg.SetRoot(root)
		cfg.Consensus.CreateEmptyBlocksInterval = 3 * time.Second
		logger := tmlog.NewNopLogger()
		r.App = node.NewRigoApp(cfg, logger)
		real := proxy.NewAppConns(node.NewRigoLocalClientCreator(r.App))
		real.SetLogger(logger)
		if err := real.Start(); err != nil {
			return err
		}
		sc := &simConns{AppConns: real}
		sc.cons = &simConsensusConn{inner: real.Consensus(), r: r}
		r.conns = sc
		r.StateStore = sm.NewStore(stateDB, sm.StoreOptions{DiscardABCIResponses: false})
		r.BlockStore = store.NewBlockStore(blockDB)
		st, err := r.StateStore.LoadFromDBOrGenesisDoc(genDoc)
		if err != nil {
			return err
		}
		hs := tmcons.NewHandshaker(r.StateStore, st, r.BlockStore, genDoc)
		hs.SetLogger(logger)
		if err := hs.Handshake(r.conns); err != nil {
			return fmt.Errorf("handshake: %w", err)
		}
		st, err = r.StateStore.Load()
		if err != nil {
			return err
		}
		r.State = st
		r.exec = sm.NewBlockExecutor(r.StateStore, logger, r.conns.Consensus(), &simMempool{r}, sm.EmptyEvidencePool{})
		return nil
	})
	if err != nil {
		return r, err
	}
	return r, nil
}

// ApplyBlock stores and applies a block the way the consensus reactor does at finalize-commit.
func (r *Replica) ApplyBlock(block *tmtypes.Block, parts *tmtypes.PartSet, seenCommit *tmtypes.Commit) error {
	return guard("ApplyBlock", func() error {
		if r.BlockStore.Height() < block.Height {
			r.BlockStore.SaveBlock(block, parts, seenCommit)
		}
		r.yield("pre")
		blockID := tmtypes.BlockID{Hash: block.Hash(), PartSetHeader: parts.Header()}
		st, _, err := r.exec.ApplyBlock(r.State, blockID, block)
		if err != nil {
			return err
		}
		r.State = st
		r.yield("end")
		return nil
	})
}

func (r *Replica) Info() (res *abci.ResponseInfo, err error) {
	err = guard("Info", func() error {
		var e error
		res, e = r.conns.Query().InfoSync(proxy.RequestInfo)
		return e
	})
	return
}

func (r *Replica) CheckTx(tx []byte) (res *abci.ResponseCheckTx, err error) {
	err = guard("CheckTx", func() error {
		var e error
		res, e = r.conns.Mempool().CheckTxSync(abci.RequestCheckTx{Tx: tx, Type: abci.CheckTxType_New})
		return e
	})
	return
}

func (r *Replica) Query(path string, data []byte, height int64) (res *abci.ResponseQuery, err error) {
	err = guard("Query("+path+")", func() error {
		if path == "vm_call" {
			tmrpccore.SetEnvironment(&tmrpccore.Environment{BlockStore: r.BlockStore})
		}
		var e error
		res, e = r.conns.Query().QuerySync(abci.RequestQuery{Path: path, Data: data, Height: height})
		return e
	})
	return
}

// Close stops the node and releases every store handle.
func (r *Replica) Close() {
	if r.closed {
		return
	}
	r.closed = true
	_ = guard("close", func() error {
		if r.conns != nil {
			_ = r.conns.Stop()
		}
		if r.App != nil {
			_, sc, gc, _ := r.App.VerifCtrlers()
			if sc != nil {
				sc.VerifCloseLeaked()
			}
			if gc != nil {
				gc.VerifCloseLeaked()
			}
		}
		return nil
	})
}

// StopGracefully performs the orderly shutdown the production node does (without the
// harness-only handle cleanup, which happens in Close).
func (r *Replica) StopGracefully() {
	_ = guard("stop", func() error {
		if r.conns != nil {
			_ = r.conns.Stop()
		}
		return nil
	})
}

// ---- crash-fork: durable image of a node at an instant ----

type Image struct {
	Root    string
	StateDB *dbm.MemDB
	BlockDB *dbm.MemDB
}

func cloneMemDB(src *dbm.MemDB) *dbm.MemDB {
	dst := dbm.NewMemDB()
	it, err := src.Iterator(nil, nil)
	if err != nil {
		panic(err)
	}
	defer it.Close()
	for ; it.Valid(); it.Next() {
		k := append([]byte(nil), it.Key()...)
		v := append([]byte(nil), it.Value()...)
		_ = dst.Set(k, v)
	}
	return dst
}

type fileInfo struct {
	rel  string
	size int64
	mod  int64
}

func listTree(root string) ([]fileInfo, error) {
	var out []fileInfo
	err := filepath.Walk(root, func(p string, info os.FileInfo, err error) error {
		if err != nil {
			if os.IsNotExist(err) {
				return nil
			}
			return err
		}
		if info.IsDir() {
			return nil
		}
		rel, _ := filepath.Rel(root, p)
		out = append(out, fileInfo{rel, info.Size(), info.ModTime().UnixNano()})
		return nil
	})
	sort.Slice(out, func(i, j int) bool { return out[i].rel < out[j].rel })
	return out, err
}

func sameListing(a, b []fileInfo) bool {
	if len(a) != len(b) {
		return false
	}
	for i := range a {
		if a[i] != b[i] {
			return false
		}
	}
	return true
}

func copyTree(src, dst string, files []fileInfo) error {
	for _, f := range files {
		sp := filepath.Join(src, f.rel)
		dp := filepath.Join(dst, f.rel)
		if err := os.MkdirAll(filepath.Dir(dp), 0o755); err != nil {
			return err
		}
		in, err := os.Open(sp)
		if err != nil {
			return err
		}
		out, err := os.Create(dp)
		if err != nil {
			in.Close()
			return err
		}
		_, err = io.Copy(out, in)
		in.Close()
		out.Close()
		if err != nil {
			return err
		}
	}
	return nil
}

// Fork takes a stable copy of everything the node has made durable at this instant:
// its data directory (what a dying process leaves on disk) and Tendermint's stores.
// The running node is not disturbed.
func (r *Replica) Fork(newRoot string) (*Image, error) {
	for try := 0; try < 50; try++ {
		l1, err := listTree(r.Root)
		if err != nil {
			return nil, err
		}
		_ = os.RemoveAll(newRoot)
		if err := copyTree(r.Root, newRoot, l1); err != nil {
			if os.IsNotExist(err) {
				time.Sleep(2 * time.Millisecond)
				continue
			}
			return nil, err
		}
		l2, err := listTree(r.Root)
		if err != nil {
			return nil, err
		}
		if sameListing(l1, l2) {
			return &Image{Root: newRoot, StateDB: cloneMemDB(r.StateDB), BlockDB: cloneMemDB(r.BlockDB)}, nil
		}
		time.Sleep(2 * time.Millisecond)
	}
	return nil, fmt.Errorf("could not take a stable copy of %s", r.Root)
}
