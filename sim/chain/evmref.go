package chain

import (
	"fmt"
	"math/big"
	"os"
	"time"

	"github.com/ethereum/go-ethereum/common"
	ethcore "github.com/ethereum/go-ethereum/core"
	"github.com/ethereum/go-ethereum/core/state"
	ethtypes "github.com/ethereum/go-ethereum/core/types"
	"github.com/ethereum/go-ethereum/core/vm"
	rigoevm "github.com/rigochain/rigo-go/ctrlers/vm/evm"
)

// Reference EVM: plain go-ethereum core.ApplyMessage on the model's world W. The chain-specific
// environment (chain config with all forks at 0, block gas pool, difficulty, zero block hashes,
// zero base fee, coinbase = proposer, time in seconds) is an input that no property defines; it is
// taken from the code base (rigoevm.RIGOMainnetEVMCtrlerChainConfig) and listed as trusted.

const refBlockGasLimit = uint64(25_000_000)

type EvmEnv struct {
	Height   int64
	Time     int64
	Proposer Addr
	GasPool  *ethcore.GasPool
}

func NewEvmEnv(h, t int64, proposer Addr) *EvmEnv {
	return &EvmEnv{Height: h, Time: t, Proposer: proposer, GasPool: new(ethcore.GasPool).AddGas(refBlockGasLimit)}
}

func refBlockContext(env *EvmEnv) vm.BlockContext {
	return vm.BlockContext{
		CanTransfer: ethcore.CanTransfer,
		Transfer:    ethcore.Transfer,
		GetHash:     func(uint64) common.Hash { return common.Hash{} },
		Coinbase:    common.Address(env.Proposer),
		BlockNumber: big.NewInt(env.Height),
		Time:        big.NewInt(env.Time),
		Difficulty:  big.NewInt(1),
		BaseFee:     big.NewInt(0),
		GasLimit:    refBlockGasLimit,
	}
}

// frameTracer only collects addresses: created contracts and self-destructing contracts.
type frameTracer struct {
	created  []common.Address
	destruct []common.Address
}

func (t *frameTracer) CaptureTxStart(uint64) {}
func (t *frameTracer) CaptureTxEnd(uint64)   {}
func (t *frameTracer) CaptureStart(env *vm.EVM, from, to common.Address, create bool, input []byte, gas uint64, value *big.Int) {
	if create {
		t.created = append(t.created, to)
	}
}
func (t *frameTracer) CaptureEnd([]byte, uint64, time.Duration, error) {}
func (t *frameTracer) CaptureEnter(typ vm.OpCode, from, to common.Address, input []byte, gas uint64, value *big.Int) {
	switch typ {
	case vm.CREATE, vm.CREATE2:
		t.created = append(t.created, to)
	case vm.SELFDESTRUCT:
		t.destruct = append(t.destruct, from)
	}
	if os.Getenv("VERIF_DEBUG") == "2" {
		fmt.Printf("TRACE enter %v from=%x to=%x value=%v gas=%d\n", typ, from, to, value, gas)
	}
}
func (t *frameTracer) CaptureExit([]byte, uint64, error) {}
func (t *frameTracer) CaptureState(uint64, vm.OpCode, uint64, uint64, *vm.ScopeContext, []byte, int, error) {
}
func (t *frameTracer) CaptureFault(uint64, vm.OpCode, uint64, uint64, *vm.ScopeContext, int, error) {}

type Destructed struct {
	Addr    common.Address
	Nonce   uint64
	Balance *big.Int // what the account holds when the tx ends (received after it self-destructed): burnt by EVM definition
}

type EvmResult struct {
	Created    []common.Address // addresses that hold code after the tx and were created in it
	Destructed []Destructed     // contracts destroyed by the tx (with their nonce at that moment)
	Err        error            // consensus-level error (tx not applicable): treated as failure
	Failed     bool
	VMErr      string
	Ret        []byte
	GasUsed    uint64
	Logs       []*ethtypes.Log
	IsCreate   bool
}

// RefExec runs the message on W. On failure W is reverted to its state before the call.
func RefExec(w *state.StateDB, env *EvmEnv, txhash common.Hash, txidx int, from Addr, to *Addr, nonce, gas uint64, gasPrice, value *big.Int, data []byte) *EvmResult {
	snap := w.Snapshot()
	w.Prepare(txhash, txidx)
	var toAddr *common.Address
	if to != nil {
		a := common.Address(*to)
		toAddr = &a
	}
	msg := ethtypes.NewMessage(common.Address(from), toAddr, nonce, new(big.Int).Set(value), gas, new(big.Int).Set(gasPrice), big.NewInt(0), big.NewInt(0), data, nil, false)
	tr := &frameTracer{}
	evm := vm.NewEVM(refBlockContext(env), ethcore.NewEVMTxContext(msg), w, rigoevm.RIGOMainnetEVMCtrlerChainConfig, vm.Config{NoBaseFee: true, Debug: true, Tracer: tr})
	res := &EvmResult{IsCreate: to == nil}
	r, err := ethcore.ApplyMessage(evm, msg, env.GasPool)
	if err != nil {
		w.RevertToSnapshot(snap)
		res.Err = err
		res.Failed = true
		return res
	}
	res.GasUsed = r.UsedGas
	res.Ret = r.ReturnData
	if r.Failed() {
		w.RevertToSnapshot(snap)
		res.Failed = true
		res.VMErr = r.Err.Error()
		return res
	}
	seen := map[common.Address]bool{}
	for _, a := range tr.destruct {
		if !seen[a] && w.HasSuicided(a) {
			seen[a] = true
			res.Destructed = append(res.Destructed, Destructed{Addr: a, Nonce: w.GetNonce(a), Balance: new(big.Int).Set(w.GetBalance(a))})
		}
	}
	w.Finalise(true)
	for _, a := range tr.created {
		if len(w.GetCode(a)) > 0 || w.Exist(a) {
			res.Created = append(res.Created, a)
		}
	}
	res.Logs = w.GetLogs(txhash, common.Hash{})
	return res
}

// RefCall is the read-only call used to judge vm_call queries (fake message, zero price, no value).
func RefCall(w *state.StateDB, h, t int64, from Addr, to *Addr, data []byte) (*ethcore.ExecutionResult, error) {
	var toAddr *common.Address
	if to != nil {
		a := common.Address(*to)
		toAddr = &a
	}
	msg := ethtypes.NewMessage(common.Address(from), toAddr, 0, big.NewInt(0), refBlockGasLimit, big.NewInt(0), big.NewInt(0), big.NewInt(0), data, nil, true)
	env := &EvmEnv{Height: h, Time: t, Proposer: from}
	evm := vm.NewEVM(refBlockContext(env), ethcore.NewEVMTxContext(msg), w, rigoevm.RIGOMainnetEVMCtrlerChainConfig, vm.Config{NoBaseFee: true})
	gp := new(ethcore.GasPool).AddGas(refBlockGasLimit)
	return ethcore.ApplyMessage(evm, msg, gp)
}
