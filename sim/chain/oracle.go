package chain

import (
	"bytes"
	"encoding/base64"
	"encoding/hex"
	"encoding/json"
	"fmt"
	"math/big"
	"os"
	"sort"
	"strconv"
	"strings"

	"github.com/ethereum/go-ethereum/common"
	"github.com/ethereum/go-ethereum/core/state"
	ethcrypto "github.com/ethereum/go-ethereum/crypto"
	rtypes "github.com/rigochain/rigo-go/ctrlers/types"
	sm "github.com/tendermint/tendermint/state"
	tmtypes "github.com/tendermint/tendermint/types"
)

// ---- tolerant JSON helpers (the node mixes number and string encodings of integers) ----------

func jnum(v interface{}) (int64, bool) {
	switch x := v.(type) {
	case float64:
		return int64(x), true
	case string:
		n, err := strconv.ParseInt(x, 10, 64)
		return n, err == nil
	case json.Number:
		n, err := x.Int64()
		return n, err == nil
	}
	return 0, false
}

func jbig(v interface{}) (*big.Int, bool) {
	switch x := v.(type) {
	case string:
		if x == "" {
			return new(big.Int), true
		}
		n, ok := new(big.Int).SetString(x, 10)
		return n, ok
	case float64:
		return big.NewInt(int64(x)), true
	}
	return nil, false
}

func jstr(v interface{}) string {
	s, _ := v.(string)
	return s
}

func jmap(v interface{}) map[string]interface{} {
	m, _ := v.(map[string]interface{})
	return m
}

// ---- block content relevance (narrow attribution of state differences) ------------------------

type blockFacts struct {
	failedTouch map[Addr]bool // addresses referenced by failed txs
	hasFailed   bool
	kinds       map[string]bool // tx kinds that succeeded
	kindsFailed map[string]bool
	refunds     bool
	evidence    bool
	missed      bool
	govApplied  bool
	hugeWithdrawFailed map[Addr]bool // senders of a failed withdrawal of 2^255 or more (an amount no account accepts)
	dupBytes    bool // the block carries the same tx bytes more than once, or bytes of an earlier block again
	forgedCheck bool // the block producer served a CheckTx of a tx altered after signing since the previous commit
}

func (w *World) facts(h int64, block *tmtypes.Block, res *BlockResult) *blockFacts {
	f := &blockFacts{failedTouch: map[Addr]bool{}, kinds: map[string]bool{}, kindsFailed: map[string]bool{}, hugeWithdrawFailed: map[Addr]bool{}}
	seenBytes := map[string]bool{}
	for _, p := range w.curPlans {
		if p.ReplayOf >= 0 || seenBytes[string(p.Bytes)] {
			f.dupBytes = true
		}
		seenBytes[string(p.Bytes)] = true
	}
	for i, p := range w.curPlans {
		if i >= len(res.DeliverTxs) {
			break
		}
		k := "garbage"
		if p.Tx != nil {
			k = kindName(p.Tx.Type)
		}
		if res.DeliverTxs[i].Code != 0 {
			f.hasFailed = true
			f.kindsFailed[k] = true
			if p.Tx != nil {
				f.failedTouch[ToAddr(p.Tx.From)] = true
				f.failedTouch[ToAddr(p.Tx.To)] = true
				if pl, ok := p.Tx.Payload.(*rtypes.TrxPayloadWithdraw); ok && pl.ReqAmt != nil && pl.ReqAmt.Sign() < 0 {
					f.hugeWithdrawFailed[ToAddr(p.Tx.From)] = true
				}
			}
		} else {
			f.kinds[k] = true
		}
	}
	f.evidence = len(block.Evidence.Evidence) > 0
	f.forgedCheck = w.forgedCheckH > 0 && w.forgedCheckH >= h-1
	if block.LastCommit != nil {
		for _, s := range block.LastCommit.Signatures {
			if s.Absent() {
				f.missed = true
			}
		}
	}
	return f
}

// totalsProps: a delegatee's redundant totals disagree with its own stake list. Always C11; after a block
// with evidence or missed signatures it is the slashing/jailing step that left them behind (C14).
func (f *blockFacts) totalsProps() []string {
	if f.evidence || f.missed {
		return []string{"C11", "C14"}
	}
	return []string{"C11"}
}

func (f *blockFacts) propsFor(kind string, addr *Addr) []string {
	var out []string
	add := func(p string, cond bool) {
		if cond {
			out = append(out, p)
		}
	}
	failedHere := f.hasFailed && (addr == nil || f.failedTouch[*addr])
	// a tx that does not carry its sender's signature must have no effect, also through the mempool check
	add("C03", f.forgedCheck)
	// a refused tx that leaves an effect behind while its nonce stays takes effect again when the same bytes
	// come again (and they do in this block, or did come before)
	add("C04", failedHere && f.dupBytes && kind != "nonce")
	switch kind {
	case "balance":
		add("C05", failedHere)
		add("C16", true)
		add("C02", true)
		add("C12", f.kinds["unstaking"] || f.refunds || f.missed)
		add("C13", f.kinds["withdraw"])
		add("C17", f.kinds["contract"] || f.kindsFailed["contract"] || f.kinds["transfer"])
	case "nonce":
		add("C04", true)
		add("C05", failedHere)
		add("C17", f.kinds["contract"] || f.kindsFailed["contract"])
	case "meta":
		add("C05", true)
	case "stake":
		add("C11", true)
		add("C05", f.hasFailed)
		add("C12", f.kinds["unstaking"] || f.refunds || f.missed)
		add("C14", f.evidence || f.missed)
	case "reward":
		add("C13", true)
		add("C05", f.kindsFailed["withdraw"])
	case "proposal":
		add("C15", true)
		add("C14", f.evidence)
		add("C05", f.kindsFailed["proposal"] || f.kindsFailed["voting"])
	case "govparams":
		add("C15", true)
	case "evm":
		add("C17", true)
		add("C05", f.kindsFailed["contract"] || f.kindsFailed["transfer"])
	}
	return out
}

// ---- committed-state oracle --------------------------------------------------------------------

type implStake struct {
	ID     string
	Owner  Addr
	To     Addr
	Power  int64
	Refund int64
}

func stakeKey(s implStake, withRefund bool) string {
	k := fmt.Sprintf("%s/%s/%s/%d", s.ID, s.Owner.Hex(), s.To.Hex(), s.Power)
	if withRefund {
		k += fmt.Sprintf("/r%d", s.Refund)
	}
	return k
}

func multiset(keys []string) map[string]int {
	m := map[string]int{}
	for _, k := range keys {
		m[k]++
	}
	return m
}

func diffMultiset(a, b map[string]int) (onlyA, onlyB []string) {
	for k, n := range a {
		if b[k] < n {
			onlyA = append(onlyA, k)
		}
	}
	for k, n := range b {
		if a[k] < n {
			onlyB = append(onlyB, k)
		}
	}
	sort.Strings(onlyA)
	sort.Strings(onlyB)
	return
}

// checkCommitted compares the leader's committed state at height h with the reference model and
// evaluates the direct invariants (conservation, bookkeeping, validator set).
func (w *World) checkCommitted(h int64, res *BlockResult, block *tmtypes.Block, pre sm.State) {
	L := w.leader()
	m := w.M
	snap := m.Snaps[h]
	f := w.facts(h, block, res)
	f.refunds = w.Probes.C["refund.matured"] > w.lastRefundCount
	w.lastRefundCount = w.Probes.C["refund.matured"]
	ac, sc, _, _ := L.App.VerifCtrlers()
	err := guard("oracle", func() error {
		// ---------------- accounts
		accts, xerr := ac.VerifAllAccountsAt(h)
		if xerr != nil {
			return fmt.Errorf("accounts: %v", xerr)
		}
		sumBal := new(big.Int)
		seen := map[Addr]bool{}
		wAt := m.StateAt(h)
		for _, a := range accts {
			if len(a.Address) < 20 {
				// a short (or absent) receiver field is zero-padded into the same ledger key as the 20-byte address
				// with those leading bytes: the record created for a rejected tx with an absent receiver IS the
				// record of the zero address (to which transfers are allowed), only its stored address field is
				// short. It is judged as that account; an empty one that the model does not know is no account.
				var pa Addr
				copy(pa[:], a.Address)
				empty := a.Balance.Sign() == 0 && a.Nonce == 0 && a.Name == "" && len(a.Code) == 0
				if empty && !wAt.Exist(common.Address(pa)) {
					w.Probes.Hit("acct.empty-record-malformed-address")
					continue
				}
				w.Probes.Hit("acct.short-address-record-is-padded-account")
				a.Address = pa[:]
			}
			if len(a.Address) != 20 {
				// a rejected tx with a malformed receiver leaves an empty record under the malformed key (the
				// receiver is looked up or created before validation): unobservable through any query and not an
				// account; anything but an empty record there would be a real problem
				if a.Balance.Sign() != 0 || a.Nonce != 0 || a.Name != "" || len(a.Code) != 0 {
					w.violate("acct.malformed-address", []string{"C05", "C09"}, h, "record with a %d-byte address %x holds balance %s nonce %d", len(a.Address), []byte(a.Address), a.Balance.Dec(), a.Nonce)
				}
				w.Probes.Hit("acct.empty-record-malformed-address")
				continue
			}
			addr := ToAddr(a.Address)
			seen[addr] = true
			bal := a.Balance.ToBig()
			sumBal.Add(sumBal, bal)
			mb := wAt.GetBalance(common.Address(addr))
			if bal.Cmp(mb) != 0 {
				v := w.violate("diff.balance", f.propsFor("balance", &addr), h, "account %s: node %s, model %s (delta %s)", addr.Hex(), bal, mb, new(big.Int).Sub(bal, mb))
				if m.Destroyed[addr] && mb.Sign() == 0 {
					v.Shape = "selfdestruct-native-residue"
				}
			}
			if mn := wAt.GetNonce(common.Address(addr)); a.Nonce != mn {
				v := w.violate("diff.nonce", f.propsFor("nonce", &addr), h, "account %s: node nonce %d, model %d", addr.Hex(), a.Nonce, mn)
				if m.Destroyed[addr] && mn == 0 {
					v.Shape = "selfdestruct-native-residue"
				}
			}
			mm := snap.Meta[addr]
			if a.Name != mm.Name || a.DocURL != mm.Doc {
				w.violate("diff.meta", f.propsFor("meta", &addr), h, "account %s: node name/doc %q/%q, model %q/%q", addr.Hex(), a.Name, a.DocURL, mm.Name, mm.Doc)
			}
		}
		for _, addr := range sortedAddrs(snap.Known) {
			if seen[addr] {
				continue
			}
			if mb := wAt.GetBalance(common.Address(addr)); mb.Sign() != 0 {
				w.violate("diff.balance", f.propsFor("balance", &addr), h, "account %s: missing in node, model balance %s", addr.Hex(), mb)
			}
			if mn := wAt.GetNonce(common.Address(addr)); mn != 0 {
				w.violate("diff.nonce", f.propsFor("nonce", &addr), h, "account %s: missing in node (nonce 0), model nonce %d", addr.Hex(), mn)
			}
		}
		// ---------------- stakes
		delegs, xerr := sc.VerifDelegateesAt(h)
		if xerr != nil {
			return fmt.Errorf("delegatees: %v", xerr)
		}
		sumBonded := int64(0)
		var implBonded, modelBonded []string
		placed := map[string]int{} // stake key (id/owner/to) -> places
		for _, d := range delegs {
			tot, self := int64(0), int64(0)
			for _, s := range d.Stakes {
				is := implStake{ID: hex.EncodeToString(s.TxHash), Owner: ToAddr(s.From), To: ToAddr(s.To), Power: s.Power}
				implBonded = append(implBonded, stakeKey(is, false))
				placed[is.ID+"/"+is.To.Hex()]++
				tot += s.Power
				if bytes.Equal(s.From, d.Addr) {
					self += s.Power
				}
				if ToAddr(s.To) != ToAddr(d.Addr) {
					w.violate("stake.misfiled", []string{"C11"}, h, "stake %s targets %s but is bonded under %s", short(is.ID), is.To.Hex(), ToAddr(d.Addr).Hex())
				}
			}
			if tot != d.TotalPower {
				w.violate("stake.total", f.totalsProps(), h, "delegatee %s: total power %d, sum of bonded stakes %d", ToAddr(d.Addr).Hex(), d.TotalPower, tot)
			}
			if self != d.SelfPower {
				w.violate("stake.self", f.totalsProps(), h, "delegatee %s: self power %d, sum of own stakes %d", ToAddr(d.Addr).Hex(), d.SelfPower, self)
			}
			sumBonded += d.TotalPower
		}
		for _, a := range sortedAddrs(snap.Delegs) {
			for _, s := range snap.Delegs[a].Stakes {
				modelBonded = append(modelBonded, stakeKey(implStake{ID: s.ID, Owner: s.Owner, To: s.To, Power: s.Power}, false))
			}
		}
		if oa, ob := diffMultiset(multiset(implBonded), multiset(modelBonded)); len(oa)+len(ob) > 0 {
			w.violate("diff.stake.bonded", f.propsFor("stake", nil), h, "bonded stakes differ: only node %v, only model %v", trunc(oa), trunc(ob))
		}
		frozen, xerr := sc.VerifFrozenAt(h)
		if xerr != nil {
			return fmt.Errorf("frozen: %v", xerr)
		}
		sumUnbond := int64(0)
		var implFrozen, modelFrozen []string
		for _, s := range frozen {
			is := implStake{ID: hex.EncodeToString(s.TxHash), Owner: ToAddr(s.From), To: ToAddr(s.To), Power: s.Power, Refund: s.RefundHeight}
			implFrozen = append(implFrozen, stakeKey(is, true))
			placed[is.ID+"/"+is.To.Hex()]++
			sumUnbond += s.Power
		}
		for _, s := range snap.Frozen {
			modelFrozen = append(modelFrozen, stakeKey(implStake{ID: s.ID, Owner: s.Owner, To: s.To, Power: s.Power, Refund: s.Refund}, true))
		}
		if oa, ob := diffMultiset(multiset(implFrozen), multiset(modelFrozen)); len(oa)+len(ob) > 0 {
			v := w.violate("diff.stake.unbonding", f.propsFor("stake", nil), h, "unbonding stakes differ: only node %v, only model %v", trunc(oa), trunc(ob))
			_ = v
		}
		// every created, not yet refunded stake is recorded in exactly one place
		for _, s := range m.AllStakes {
			if m.Refunded[s.Seq] {
				continue
			}
			k := s.ID + "/" + s.To.Hex()
			if placed[k] != 1 && s.ID != zeroHashHex {
				w.violate("stake.places", []string{"C11"}, h, "stake %s (owner %s, target %s) is recorded in %d places", short(s.ID), s.Owner.Hex(), s.To.Hex(), placed[k])
			}
		}
		// total power query
		if q, err := L.Query("stakes/total_power", nil, h); err == nil && q.Code == 0 {
			if n, err := strconv.ParseInt(string(q.Value), 10, 64); err != nil || n != sumBonded {
				w.violate("stake.totalquery", []string{"C11", "C19"}, h, "stakes/total_power answers %s, bonded sum is %d", q.Value, sumBonded)
			}
		} else if err != nil {
			return err
		}
		// voting power query, judged only at the height just committed (it is computed with the live
		// parameters, see S12): the sum of the total powers of the delegatees block execution will select.
		// The sum over the top seats is the same however ties at the cut are broken.
		if q, err := L.Query("stakes/voting_power", nil, h); err == nil && q.Code == 0 && !w.adoptGov && w.selectionParamsStable(h) {
			cs := snap.Candidates(snap.Gov.MinValidatorStake)
			want := int64(0)
			for i, c := range cs {
				if i >= int(snap.Gov.MaxValidatorCnt) {
					break
				}
				want += c.Power
			}
			if n, err := strconv.ParseInt(string(q.Value), 10, 64); err != nil || n != want {
				w.violate("stake.votingquery", []string{"C11", "C19"}, h, "stakes/voting_power answers %s, the selected validators' total power is %d", q.Value, want)
			}
			if len(cs) < len(snap.Delegs) {
				w.Probes.Hit("stake.delegatee-below-min-self")
			}
		} else if err != nil {
			return err
		}
		// ---------------- conservation (C02), in unbounded arithmetic
		lhs := new(big.Int).Set(sumBal)
		lhs.Add(lhs, powerToAmt(sumBonded))
		lhs.Add(lhs, powerToAmt(sumUnbond))
		if w.Tr.Cfg.EVM && len(m.Deployed) > 0 {
			w.updateEvmBurn(h, snap)
		}
		rhs := new(big.Int).Set(m.GenesisTotal)
		rhs.Add(rhs, m.Withdrawn)
		rhs.Sub(rhs, m.SlashBurn)
		rhs.Sub(rhs, m.EvmBurn)
		if lhs.Cmp(rhs) != 0 {
			v := w.violate("conservation", []string{"C02"}, h, "balances %s + bonded %d + unbonding %d = %s, expected genesis %s + withdrawn %s - slashed %s - evm burns %s = %s (delta %s)",
				sumBal, sumBonded, sumUnbond, lhs, m.GenesisTotal, m.Withdrawn, m.SlashBurn, m.EvmBurn, rhs, new(big.Int).Sub(lhs, rhs))
			_ = v
		}
		// ---------------- rewards
		if h <= 4 && w.BootstrapDirty {
			w.adoptClaims(h)
		} else {
			w.checkRewards(h, f, res)
		}
		// ---------------- governance
		w.checkGov(h, f)
		// ---------------- validator set (C10), read from the real engine state
		w.checkValidators(h)
		// ---------------- EVM code and storage
		if w.Tr.Cfg.EVM && len(m.Contracts) > 0 {
			w.checkEvmState(h, f)
		}
		return nil
	})
	if err != nil {
		if pe, ok := err.(*PanicError); ok {
			w.violate("oracle.panic", []string{"C09", "C19"}, h, "reading committed state: %s @ %s", pe.Val, pe.Stack)
		} else {
			w.violate("oracle.error", []string{"C19"}, h, "reading committed state: %v", err)
		}
		w.Fatal = true
	}
	w.deletedThisBlock = map[Addr]bool{}
}

func trunc(s []string) []string {
	if len(s) > 4 {
		return append(s[:4:4], fmt.Sprintf("... (%d)", len(s)))
	}
	return s
}

type rewardDoc struct {
	Address   string      `json:"address"`
	Issued    string      `json:"issued"`
	Withdrawn string      `json:"withdrawn"`
	Cumulated string      `json:"cumulated"`
	Slashed   string      `json:"slashed"`
	Height    interface{} `json:"height"`
}

func (w *World) queryClaim(r *Replica, a Addr, h int64) (*big.Int, *rewardDoc, error) {
	q, err := r.Query("reward", a[:], h)
	if err != nil {
		return nil, nil, err
	}
	if q.Code != 0 {
		return new(big.Int), nil, nil
	}
	d := &rewardDoc{}
	if err := json.Unmarshal(q.Value, d); err != nil {
		return nil, nil, fmt.Errorf("reward doc: %v (%s)", err, q.Value)
	}
	c, ok := new(big.Int).SetString(d.Cumulated, 10)
	if !ok {
		c = new(big.Int)
	}
	return c, d, nil
}

func (w *World) claimAddrs() []Addr {
	set := map[Addr]bool{}
	for _, a := range w.Actors {
		set[a.Addr] = true
	}
	for a := range w.M.Claims {
		set[a] = true
	}
	return sortedAddrs(set)
}

func (w *World) adoptClaims(h int64) {
	for _, a := range w.claimAddrs() {
		c, _, err := w.queryClaim(w.leader(), a, h)
		if err != nil || c == nil {
			continue
		}
		if c.Sign() != 0 || w.M.Claims[a] != nil {
			w.M.Claims[a] = c
			w.M.Snaps[h].Claims[a] = new(big.Int).Set(c)
		}
	}
	w.Probes.Hit("reward.bootstrap-adopted")
}

func (w *World) checkRewards(h int64, f *blockFacts, res *BlockResult) {
	snap := w.M.Snaps[h]
	for _, a := range w.claimAddrs() {
		c, _, err := w.queryClaim(w.leader(), a, h)
		if err != nil {
			w.violate("oracle.error", []string{"C19"}, h, "reward query: %v", err)
			return
		}
		mc := snap.Claims[a]
		if mc == nil {
			mc = new(big.Int)
		}
		if c.Cmp(mc) != 0 {
			v := w.violate("diff.reward", f.propsFor("reward", &a), h, "withdrawable reward of %s: node %s, model %s", a.Hex(), c, mc)
			if f.hugeWithdrawFailed[a] {
				v.Shape = "failed-withdraw-of-2^255-or-more"
			}
		}
	}
	// the 'reward' event of BeginBlock
	if res.BeginBlock != nil && w.expectIssued != nil {
		for _, ev := range res.BeginBlock.Events {
			if ev.Type != "reward" {
				continue
			}
			for _, at := range ev.Attributes {
				if string(at.Key) == "issued" {
					if got, ok := new(big.Int).SetString(string(at.Value), 10); ok && got.Cmp(w.expectIssued) != 0 {
						w.violate("reward.issued-event", []string{"C13"}, h, "reward event says %s issued, model %s", got, w.expectIssued)
					}
					if w.expectIssued.Sign() > 0 {
						w.Probes.Hit("reward.issued")
					}
				}
			}
		}
	}
}

func (w *World) checkGov(h int64, f *blockFacts) {
	L := w.leader()
	m := w.M
	snap := m.Snaps[h]
	// parameters
	q, err := L.Query("gov_params", nil, h)
	if err != nil || q.Code != 0 {
		w.violate("oracle.error", []string{"C19"}, h, "gov_params query failed: %v %v", err, q)
		return
	}
	var doc map[string]interface{}
	if err := json.Unmarshal(q.Value, &doc); err != nil {
		w.violate("oracle.error", []string{"C19"}, h, "gov_params doc: %v", err)
		return
	}
	got := govFromDoc(doc)
	if w.adoptGov {
		m.Gov = got.Clone()
		snap.Gov = got.Clone()
		w.adoptGov = false
	}
	if d := govDiff(got, snap.Gov); d != "" {
		// the parameters in force differ from what governance decided: C15, and the property each differing
		// parameter governs
		gp := f.propsFor("govparams", nil)
		for name, prop := range map[string]string{"lazyRewardBlocks": "C12", "rewardPerPower": "C13", "slashRatio": "C14",
			"signedBlocksWindow": "C14", "minSignedBlocks": "C14", "gasPrice": "C16", "minTrxGas": "C16",
			"maxValidatorCnt": "C10", "minValidatorStake": "C10"} {
			if strings.Contains(d, name+" node=") {
				dup := false
				for _, x := range gp {
					dup = dup || x == prop
				}
				if !dup {
					gp = append(gp, prop)
				}
			}
		}
		sort.Strings(gp)
		v := w.violate("diff.govparams", gp, h, "governance parameters: %s", d)
		if w.Probes.C["gov.two-applied-one-block"] > 0 {
			v.Shape = "two-proposals-applied-one-block"
		}
	}
	// proposals
	q, err = L.Query("proposal", nil, h)
	if err != nil || q.Code != 0 {
		w.violate("oracle.error", []string{"C19"}, h, "proposal query failed: %v %v", err, q)
		return
	}
	var list []map[string]interface{}
	if len(q.Value) > 0 && string(q.Value) != "null" {
		if err := json.Unmarshal(q.Value, &list); err != nil {
			w.violate("oracle.error", []string{"C19"}, h, "proposal doc: %v", err)
			return
		}
	}
	gotP := map[string]string{}
	for _, e := range list {
		id, desc := describeImplProp(e)
		if os.Getenv("VERIF_DEBUG") == "gov" {
			w.logf("D prop h=%d %s %s", h, short(id), desc)
		}
		gotP[id] = desc
	}
	wantP := map[string]string{}
	for id, p := range snap.Props {
		wantP[id] = describeModelProp(p, "voting")
	}
	for id, p := range snap.FrozenProps {
		wantP[id] = describeModelProp(p, "frozen")
	}
	ids := map[string]bool{}
	for id := range gotP {
		ids[id] = true
	}
	for id := range wantP {
		ids[id] = true
	}
	for _, id := range sortedKeys(ids) {
		g, wnt := gotP[id], wantP[id]
		if strings.Contains(wnt, "major=-2") {
			// several options reached the threshold: the winner is not fixed by the statement
			g = stripMajor(g)
			wnt = stripMajor(wnt)
		}
		if g != wnt {
			w.violate("diff.proposal", f.propsFor("proposal", nil), h, "proposal %s: node {%s} model {%s}", short(id), g, wnt)
		}
	}
}

func stripMajor(s string) string {
	if i := strings.Index(s, " major="); i >= 0 {
		return s[:i]
	}
	return s
}

func govFromDoc(doc map[string]interface{}) GovP {
	gi := func(k string) int64 { n, _ := jnum(doc[k]); return n }
	gb := func(k string) *big.Int {
		n, ok := jbig(doc[k])
		if !ok || n == nil {
			return new(big.Int)
		}
		return n
	}
	return GovP{Version: gi("version"), MaxValidatorCnt: gi("maxValidatorCnt"), MinValidatorStake: gb("minValidatorStake"),
		MinDelegatorStake: gb("minDelegatorStake"), RewardPerPower: gb("rewardPerPower"), LazyRewardBlocks: gi("lazyRewardBlocks"),
		LazyApplyingBlocks: gi("lazyApplyingBlocks"), GasPrice: gb("gasPrice"), MinTrxGas: uint64(gi("minTrxGas")), MaxTrxGas: uint64(gi("maxTrxGas")),
		MaxBlockGas: uint64(gi("maxBlockGas")), MinVotingPeriodBlocks: gi("minVotingPeriodBlocks"), MaxVotingPeriodBlocks: gi("maxVotingPeriodBlocks"),
		MinSelfStakeRatio: gi("minSelfStakeRatio"), MaxUpdatableStakeRatio: gi("maxUpdatableStakeRatio"), MaxIndividualStakeRatio: gi("maxIndividualStakeRatio"),
		SlashRatio: gi("slashRatio"), SignedBlocksWindow: gi("signedBlocksWindow"), MinSignedBlocks: gi("minSignedBlocks")}
}

func govDiff(a, b GovP) string {
	var d []string
	ci := func(n string, x, y int64) {
		if x != y {
			d = append(d, fmt.Sprintf("%s node=%d model=%d", n, x, y))
		}
	}
	cb := func(n string, x, y *big.Int) {
		if x.Cmp(y) != 0 {
			d = append(d, fmt.Sprintf("%s node=%s model=%s", n, x, y))
		}
	}
	ci("maxValidatorCnt", a.MaxValidatorCnt, b.MaxValidatorCnt)
	cb("minValidatorStake", a.MinValidatorStake, b.MinValidatorStake)
	cb("minDelegatorStake", a.MinDelegatorStake, b.MinDelegatorStake)
	cb("rewardPerPower", a.RewardPerPower, b.RewardPerPower)
	ci("lazyRewardBlocks", a.LazyRewardBlocks, b.LazyRewardBlocks)
	ci("lazyApplyingBlocks", a.LazyApplyingBlocks, b.LazyApplyingBlocks)
	cb("gasPrice", a.GasPrice, b.GasPrice)
	ci("minTrxGas", int64(a.MinTrxGas), int64(b.MinTrxGas))
	ci("minVotingPeriodBlocks", a.MinVotingPeriodBlocks, b.MinVotingPeriodBlocks)
	ci("maxVotingPeriodBlocks", a.MaxVotingPeriodBlocks, b.MaxVotingPeriodBlocks)
	ci("minSelfStakeRatio", a.MinSelfStakeRatio, b.MinSelfStakeRatio)
	ci("maxUpdatableStakeRatio", a.MaxUpdatableStakeRatio, b.MaxUpdatableStakeRatio)
	ci("maxIndividualStakeRatio", a.MaxIndividualStakeRatio, b.MaxIndividualStakeRatio)
	ci("slashRatio", a.SlashRatio, b.SlashRatio)
	ci("signedBlocksWindow", a.SignedBlocksWindow, b.SignedBlocksWindow)
	ci("minSignedBlocks", a.MinSignedBlocks, b.MinSignedBlocks)
	return strings.Join(d, "; ")
}

func describeImplProp(e map[string]interface{}) (string, string) {
	status := jstr(e["status"])
	p := jmap(e["proposal"])
	hd := jmap(p["header"])
	idB, _ := hex.DecodeString(jstr(hd["txHash"]))
	id := hex.EncodeToString(idB)
	start, _ := jnum(hd["startVotingHeight"])
	end, _ := jnum(hd["endVotingHeight"])
	apply, _ := jnum(hd["applyingHeight"])
	total, _ := jnum(hd["totalVotingPower"])
	major, _ := jnum(hd["majorityPower"])
	var voters []string
	for _, v := range jmap(hd["votes"]) {
		vm := jmap(v)
		pw, _ := jnum(vm["power"])
		ch, _ := jnum(vm["choice"])
		if pw <= 0 {
			continue
		}
		voters = append(voters, fmt.Sprintf("%s:%d:%d", strings.ToLower(jstr(vm["address"])), pw, ch))
	}
	sort.Strings(voters)
	// tallies by option content (the node may reorder options when it closes the vote)
	var tally []string
	opts, _ := p["options"].([]interface{})
	for _, o := range opts {
		om := jmap(o)
		ob, _ := base64.StdEncoding.DecodeString(jstr(om["option"]))
		v, _ := jnum(om["votes"])
		tally = append(tally, fmt.Sprintf("%x=%d", shortHash(ob), v))
	}
	sort.Strings(tally)
	desc := fmt.Sprintf("%s start=%d end=%d apply=%d total=%d majority=%d voters=%v tally=%v", status, start, end, apply, total, major, voters, tally)
	if status == "frozen" {
		mo := jmap(p["majorOption"])
		ob, _ := base64.StdEncoding.DecodeString(jstr(mo["option"]))
		desc += fmt.Sprintf(" major=%x", shortHash(ob))
	}
	return id, desc
}

func shortHash(b []byte) []byte {
	h := ethcrypto.Keccak256(b)
	return h[:4]
}

func describeModelProp(p *MProp, status string) string {
	var voters []string
	for a, v := range p.Voters {
		if v.Power <= 0 {
			continue
		}
		voters = append(voters, fmt.Sprintf("%s:%d:%d", a.Hex(), v.Power, v.Choice))
	}
	sort.Strings(voters)
	t := p.Tally()
	var tally []string
	for i, o := range p.Options {
		tally = append(tally, fmt.Sprintf("%x=%d", shortHash(o), t[i]))
	}
	sort.Strings(tally)
	desc := fmt.Sprintf("%s start=%d end=%d apply=%d total=%d majority=%d voters=%v tally=%v", status, p.Start, p.End, p.Apply, p.Total, p.Majority(), voters, tally)
	if status == "frozen" {
		if p.Major >= 0 {
			desc += fmt.Sprintf(" major=%x", shortHash(p.Options[p.Major]))
		} else {
			desc += " major=-2"
		}
	}
	return desc
}

// checkValidators: the fold of all validator updates, as held by the real engine, must be the
// selection rule applied to the state committed by the previous block.
func (w *World) checkValidators(h int64) {
	L := w.leader()
	m := w.M
	prev := m.Snaps[h-1]
	if prev == nil {
		return
	}
	cands := prev.Candidates(prev.Gov.MinValidatorStake)
	var nz []Cand
	for _, c := range cands {
		if c.Power > 0 {
			nz = append(nz, c)
		}
	}
	cands = nz
	seats := int(prev.Gov.MaxValidatorCnt)
	got := map[Addr]int64{}
	for _, v := range L.State.NextValidators.Validators {
		got[ToAddr(v.Address)] = v.VotingPower
	}
	if len(cands) > seats {
		w.Probes.Hit("valset.more-candidates-than-seats")
	}
	candPower := map[Addr]int64{}
	for _, c := range cands {
		candPower[c.Addr] = c.Power
	}
	props := []string{"C10"}
	fail := func(f string, a ...interface{}) {
		w.violate("valset", props, h, "%s; engine set %v; candidates %v seats %d", fmt.Sprintf(f, a...), fmtSet(got), cands, seats)
	}
	// voting power the engine holds for somebody beyond what is bonded to them: power that was released
	// (or never bonded) still votes
	var gotAddrs []Addr
	for a := range got {
		gotAddrs = append(gotAddrs, a)
	}
	sort.Slice(gotAddrs, func(i, j int) bool { return bytes.Compare(gotAddrs[i][:], gotAddrs[j][:]) < 0 })
	for _, a := range gotAddrs {
		bonded := int64(0)
		if d := prev.Delegs[a]; d != nil {
			bonded = d.Total()
		}
		if got[a] > bonded {
			props = []string{"C10", "C12"}
		}
	}
	want := len(cands)
	if want > seats {
		want = seats
	}
	if want == 0 {
		// an empty set is never produced by the workload; if the node attempted it the engine refused the block
		return
	}
	if len(got) != want {
		fail("size %d, expected %d", len(got), want)
		return
	}
	for _, a := range gotAddrs {
		p := got[a]
		cp, ok := candPower[a]
		if !ok {
			fail("%s is a validator but does not qualify", a.Hex())
			return
		}
		if cp != p {
			fail("%s has voting power %d, bonded total %d", a.Hex(), p, cp)
			return
		}
	}
	if len(cands) > seats {
		cut := cands[seats-1].Power
		tie := cands[seats].Power == cut
		if tie {
			w.Probes.Hit("valset.boundary-tie")
		}
		for _, c := range cands {
			_, in := got[c.Addr]
			if c.Power > cut && !in {
				fail("%s with power %d is left out although it ranks above the cut %d", c.Addr.Hex(), c.Power, cut)
				return
			}
			if c.Power < cut && in {
				fail("%s with power %d is in although it ranks below the cut %d", c.Addr.Hex(), c.Power, cut)
				return
			}
		}
	}
	if h > 1 {
		// set changed?
		if fmtSet(got) != w.lastValSet && w.lastValSet != "" {
			w.Probes.Hit("valset.changed")
		}
	}
	w.lastValSet = fmtSet(got)
}

func fmtSet(m map[Addr]int64) string {
	var s []string
	for a, p := range m {
		s = append(s, fmt.Sprintf("%s:%d", a.Hex()[:8], p))
	}
	sort.Strings(s)
	return strings.Join(s, ",")
}

// ---- EVM state comparison ---------------------------------------------------------------------

type evmAcct struct {
	Root     string
	CodeHash string
	Balance  string
}

type evmCollector struct{ m map[string]evmAcct }

func (c *evmCollector) OnRoot(common.Hash) {}
func (c *evmCollector) OnAccount(addr common.Address, a state.DumpAccount) {
	key := hex.EncodeToString(a.SecureKey)
	if len(a.SecureKey) == 0 {
		key = hex.EncodeToString(ethcrypto.Keccak256(addr[:]))
	}
	c.m[key] = evmAcct{Root: hex.EncodeToString(a.Root), CodeHash: hex.EncodeToString(a.CodeHash), Balance: a.Balance}
}

var (
	emptyRootHex = "56e81f171bcc55a6ff8345e692c0f86e5b48e01b996cadc001622fb5e363b421"
	emptyCodeHex = hex.EncodeToString(ethcrypto.Keccak256(nil))
)

func dumpEvm(s *state.StateDB) map[string]evmAcct {
	c := &evmCollector{m: map[string]evmAcct{}}
	s.DumpToCollector(c, &state.DumpConfig{SkipCode: true, SkipStorage: true})
	return c.m
}

func (w *World) checkEvmState(h int64, f *blockFacts) {
	ec := w.evmCtrler()
	if ec == nil {
		return
	}
	st, xerr := ec.ImmutableStateAt(h)
	if xerr != nil {
		w.violate("oracle.error", []string{"C17", "C19"}, h, "evm state at %d: %v", h, xerr)
		return
	}
	impl := dumpEvm(st.StateDB)
	ref := dumpEvm(w.M.StateAt(h))
	keys := map[string]bool{}
	for k := range impl {
		keys[k] = true
	}
	for k := range ref {
		keys[k] = true
	}
	trivial := func(a evmAcct, ok bool) bool {
		return !ok || (a.Root == emptyRootHex && a.CodeHash == emptyCodeHex)
	}
	// name the differing account if it is a known one
	names := map[string]string{}
	for a := range w.M.Known {
		names[hex.EncodeToString(ethcrypto.Keccak256(a[:]))] = a.Hex()
	}
	for _, k := range sortedKeys(keys) {
		a, oka := impl[k]
		b, okb := ref[k]
		if trivial(a, oka) && trivial(b, okb) {
			continue
		}
		a.Balance, b.Balance = "", ""
		if a != b {
			w.violate("diff.evm", f.propsFor("evm", nil), h, "contract %s: node code/storage %s/%s, reference %s/%s", names[k], short(a.CodeHash), short(a.Root), short(b.CodeHash), short(b.Root))
		}
	}
}

// updateEvmBurn: value destroyed by EVM definition (self-destruct into itself), as computed by the
// reference EVM: the residual of the model's own totals.
func (w *World) updateEvmBurn(h int64, snap *Snapshot) {
	m := w.M
	total := new(big.Int)
	for _, a := range dumpEvm(m.StateAt(h)) {
		if b, ok := new(big.Int).SetString(a.Balance, 10); ok {
			total.Add(total, b)
		}
	}
	for _, d := range snap.Delegs {
		total.Add(total, powerToAmt(d.Total()))
	}
	for _, s := range snap.Frozen {
		total.Add(total, powerToAmt(s.Power))
	}
	exp := new(big.Int).Add(m.GenesisTotal, m.Withdrawn)
	exp.Sub(exp, m.SlashBurn)
	burn := new(big.Int).Sub(exp, total)
	if burn.Cmp(m.EvmBurn) != 0 {
		if w.modelOffTrack() {
			return // the model is off the node's track already; its own totals mean nothing any more
		}
		if burn.Cmp(m.EvmBurn) < 0 || len(m.Destroyed) == 0 {
			w.violate("harness.model-total", []string{"HARNESS"}, h, "the reference model's own total changed by %s without a self-destruct", new(big.Int).Sub(m.EvmBurn, burn))
			return
		}
		w.Probes.Hit("evm.selfdestruct-burn")
		m.EvmBurn = burn
	}
}


// selectionParamsStable: the two parameters of the validator selection (minimum own stake, seats) have been
// the same from the block before h up to now. The voting_power handler selects with the parameters the
// controller holds when it is asked, and the moment a decided change reaches that copy is not part of any
// statement, so its answers are judged only away from such changes.
func (w *World) selectionParamsStable(h int64) bool {
	live := w.M.Gov
	for x := h - 1; x <= w.M.H; x++ {
		s := w.M.Snaps[x]
		if s == nil {
			if x < 1 {
				continue
			}
			return false
		}
		if s.Gov.MinValidatorStake.Cmp(live.MinValidatorStake) != 0 || s.Gov.MaxValidatorCnt != live.MaxValidatorCnt {
			return false
		}
	}
	return true
}
