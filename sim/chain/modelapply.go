package chain

import (
	"bytes"
	"encoding/hex"
	"encoding/json"
	"fmt"
	"math/big"
	"os"
	"sort"

	"github.com/ethereum/go-ethereum/common"
	ethcrypto "github.com/ethereum/go-ethereum/crypto"
	rtypes "github.com/rigochain/rigo-go/ctrlers/types"
	abci "github.com/tendermint/tendermint/abci/types"
	sm "github.com/tendermint/tendermint/state"
	tmtypes "github.com/tendermint/tendermint/types"
)

const (
	trxTransfer  = 1
	trxStaking   = 2
	trxUnstaking = 3
	trxProposal  = 4
	trxVoting    = 5
	trxContract  = 6
	trxSetDoc    = 7
	trxWithdraw  = 8
)

func kindName(t int32) string {
	switch t {
	case trxTransfer:
		return "transfer"
	case trxStaking:
		return "staking"
	case trxUnstaking:
		return "unstaking"
	case trxProposal:
		return "proposal"
	case trxVoting:
		return "voting"
	case trxContract:
		return "contract"
	case trxSetDoc:
		return "setdoc"
	case trxWithdraw:
		return "withdraw"
	}
	return "unknown"
}

func inValSets(st sm.State, a Addr) bool {
	for _, vs := range []*tmtypes.ValidatorSet{st.LastValidators, st.Validators, st.NextValidators} {
		if vs != nil && vs.HasAddress(a[:]) {
			return true
		}
	}
	return false
}

// applyBlockToModel drives the reference model with the block's inputs and the observed
// per-transaction outcomes (outcome-driven: a non-zero code applies nothing; a zero code first
// asserts every precondition some property declares necessary, then applies the specified effect).
func (w *World) applyBlockToModel(h int64, step *BlockStep, plans []*TxPlan, res *BlockResult, block *tmtypes.Block, pre sm.State) {
	m := w.M
	gov := m.Gov
	startFrozen := map[int]bool{}
	genesisFlight := map[int]bool{}
	for _, s := range m.Frozen {
		startFrozen[s.Seq] = true
		if s.ID == zeroHashHex {
			genesisFlight[s.Seq] = true
		}
	}
	defer func() {
		for _, s := range m.Frozen {
			if s.ID == zeroHashHex {
				genesisFlight[s.Seq] = true
			}
		}
		m.GenesisInFlight = len(genesisFlight)
		if m.GenesisInFlight >= 2 {
			w.Probes.Hit("stake.two-genesis-stakes-unbonding")
		}
	}()
	proposer := ToAddr(block.ProposerAddress)
	blockTime := block.Time.Unix()

	// --- BeginBlock: evidence
	for _, ev := range block.Evidence.Evidence {
		dve, ok := ev.(*tmtypes.DuplicateVoteEvidence)
		if !ok {
			continue
		}
		v := ToAddr(dve.VoteA.ValidatorAddress)
		r := m.applyEvidenceAt(v, h, w.Probes)
		if r.Known {
			w.Probes.Hit("slash.known")
			if h <= 3 {
				w.BootstrapDirty = true
			}
		} else {
			w.Probes.Hit("slash.unknown")
		}
	}
	// --- BeginBlock: rewards and missed signatures, from the block's real LastCommit
	issued := new(big.Int)
	if h > 1 && pre.LastValidators != nil && block.LastCommit != nil {
		for i, val := range pre.LastValidators.Validators {
			if i >= len(block.LastCommit.Signatures) {
				break
			}
			v := ToAddr(val.Address)
			if !block.LastCommit.Signatures[i].Absent() {
				base := h - 4
				if base < 1 {
					base = 0 // validators of heights <= 3 derive from genesis
				}
				issued.Add(issued, m.Reward(v, base))
			} else {
				w.Probes.Hit("missed.signature")
				w.modelMissed(v, h, gov, plans, res)
			}
		}
	}
	w.expectIssued = issued

	// --- DeliverTx
	env := NewEvmEnv(h, blockTime, proposer)
	fees := new(big.Int)
	for i, p := range plans {
		r := res.DeliverTxs[i]
		fee := w.applyTx(h, i, p, r, env, pre, gov)
		fees.Add(fees, fee)
	}

	// --- EndBlock: governance
	for _, id := range sortedKeys(m.Props) {
		p := m.Props[id]
		if p.End < h {
			delete(m.Props, id)
			tally := p.Tally()
			best, bestV, nMaj := -1, int64(-1), 0
			for k, t := range tally {
				if t > bestV {
					best, bestV = k, t
				}
				if t >= p.Majority() {
					nMaj++
				}
			}
			if best >= 0 && bestV >= p.Majority() {
				p.Major = best
				if nMaj > 1 {
					p.Major = -2 // several options reach the threshold: any of them may win (lenient)
					w.Probes.Hit("gov.multi-majority")
				}
				p.FrozenAt = h
				m.FrozenProps[id] = p
				w.Probes.Hit("gov.frozen")
			} else {
				w.Probes.Hit("gov.rejected")
			}
		}
	}
	applied := 0
	cur := m.Gov.Clone()
	for _, id := range sortedKeys(m.FrozenProps) {
		p := m.FrozenProps[id]
		if p.FrozenAt < h && p.Apply <= h {
			delete(m.FrozenProps, id)
			if p.OptType == 0x0101 && p.Major >= 0 {
				np, err := mergeGov(cur, p.Options[p.Major])
				if err == nil {
					cur = np
					applied++
				} else {
					w.logf("model: option of %s does not parse: %v", id[:8], err)
				}
			} else if p.Major == -2 {
				w.adoptGov = true
			}
			w.Probes.Hit("gov.applied")
		}
	}
	if applied > 0 {
		c := cur
		m.PendingGov = &c
		if applied > 1 {
			w.Probes.Hit("gov.two-applied-one-block")
		}
	}
	// --- EndBlock: fees to the proposer
	if fees.Sign() > 0 {
		m.AddBalance(proposer, fees)
	}
	// --- EndBlock: refunds of matured unbonding stakes
	if n := m.Refunds(h, startFrozen); n > 0 {
		w.Probes.Add("refund.matured", n)
	}
	// --- Commit
	if m.PendingGov != nil {
		m.Gov = *m.PendingGov
		m.PendingGov = nil
		w.Probes.Hit("gov.params-changed")
	}
	m.commitSnapshot(h, blockTime)
	if os.Getenv("VERIF_DEBUG") == "stake" {
		w.logf("D gov h=%d seats=%d minVal=%s", h, m.Gov.MaxValidatorCnt, m.Gov.MinValidatorStake)
		if q, err := w.leader().Query("gov_params", nil, 0); err == nil {
			w.logf("D govq h=%d %s", h, q.Value)
		}
		for _, a := range sortedAddrs(m.Delegs) {
			d := m.Delegs[a]
			w.logf("D deleg h=%d %s self=%d total=%d stakes=%d missed=%v", h, a.Hex(), d.Self(), d.Total(), len(d.Stakes), d.Missed)
		}
	}
}

func (m *Model) applyEvidenceAt(v Addr, h int64, probes *Probes) SlashResult {
	// proposals whose voting window has closed are no longer "open": they are decided on the
	// weights at the close of voting
	closed := map[string]*MProp{}
	for id, p := range m.Props {
		if p.End < h {
			closed[id] = p
			delete(m.Props, id)
		}
	}
	r := m.ApplyEvidence(v, probes)
	for id, p := range closed {
		m.Props[id] = p
	}
	return r
}

func (w *World) modelMissed(v Addr, h int64, gov GovP, plans []*TxPlan, res *BlockResult) {
	m := w.M
	d := m.Delegs[v]
	if d == nil {
		return
	}
	sh := h - 1
	d.Missed = append(d.Missed, sh)
	if os.Getenv("VERIF_DEBUG") == "stake" {
		w.logf("D missed %s h=%d missed=%v stakes=%d", v.Hex(), h, d.Missed, len(d.Stakes))
	}
	W := gov.SignedBlocksWindow
	cnt := func(lo int64) int64 {
		n := int64(0)
		for _, x := range d.Missed {
			if x >= lo && x <= sh {
				n++
			}
		}
		return n
	}
	a := cnt(sh - W + 1) // exactly W heights
	b := cnt(sh - W)     // W+1 heights (the other reading of the window edge)
	must := W-a < gov.MinSignedBlocks
	mustNot := W-b >= gov.MinSignedBlocks
	jail := must
	if !must && !mustNot {
		// the window edge is not fixed by the statement: accept what the node did
		jail = w.implJailed(v, h, d, plans, res)
		w.Probes.Hit("jail.edge-lenient")
	}
	if jail {
		w.Probes.Hit("jail.fired")
		if h <= 3 {
			w.BootstrapDirty = true
		}
		m.Jail(v, h)
	}
}

// implJailed decides, for the window-edge case the statement leaves open, whether the leader stopped v in
// the BeginBlock of block h. Read from what block h committed:
//   - v had bonded stakes when the block started: all of them are unbonding with refund height h + period,
//     and no transaction of the block released one of them successfully (after a stop those fail);
//   - v was an empty record (everything forfeited by slashing): the record is gone, or was created afresh
//     by a staking tx of this block (then it does not carry the mark of the height just missed).
func (w *World) implJailed(v Addr, h int64, d *MDeleg, plans []*TxPlan, res *BlockResult) bool {
	_, sc, _, _ := w.leader().App.VerifCtrlers()
	if len(d.Stakes) == 0 {
		ds, xerr := sc.VerifDelegateesAt(h)
		if xerr != nil {
			return false
		}
		for _, nd := range ds {
			if ToAddr(nd.Addr) != v {
				continue
			}
			if nd.NotSignedHeights != nil {
				for _, x := range nd.NotSignedHeights.BlockHeights {
					if x == h-1 {
						return false
					}
				}
			}
			return true
		}
		return true
	}
	fr, xerr := sc.VerifFrozenAt(h)
	if xerr != nil {
		return false
	}
	frozen := map[string]bool{}
	for _, s := range fr {
		if ToAddr(s.To) == v && s.RefundHeight == h+w.M.Gov.LazyRewardBlocks {
			frozen[hex.EncodeToString(s.TxHash)] = true
		}
	}
	pre := map[string]bool{}
	for _, s := range d.Stakes {
		if !frozen[s.ID] {
			return false
		}
		pre[s.ID] = true
	}
	for i, p := range plans {
		if p.Tx == nil || i >= len(res.DeliverTxs) || res.DeliverTxs[i].Code != 0 || p.Tx.GetType() != trxUnstaking || ToAddr(p.Tx.To) != v {
			continue
		}
		if pl, ok := p.Tx.Payload.(*rtypes.TrxPayloadUnstaking); ok && pre[hex.EncodeToString(pl.TxHash)] {
			return false
		}
	}
	return true
}

func mergeGov(cur GovP, opt []byte) (GovP, error) {
	var raw map[string]json.RawMessage
	if err := json.Unmarshal(opt, &raw); err != nil {
		return cur, err
	}
	out := cur.Clone()
	geti := func(k string) (int64, bool, error) {
		r, ok := raw[k]
		if !ok {
			return 0, false, nil
		}
		var s string
		if err := json.Unmarshal(r, &s); err != nil {
			var n int64
			if err2 := json.Unmarshal(r, &n); err2 != nil {
				return 0, false, err
			}
			return n, true, nil
		}
		if s == "" {
			return 0, false, nil
		}
		n, ok2 := new(big.Int).SetString(s, 10)
		if !ok2 {
			return 0, false, fmt.Errorf("bad number %q", s)
		}
		return n.Int64(), true, nil
	}
	getb := func(k string) (*big.Int, bool, error) {
		r, ok := raw[k]
		if !ok {
			return nil, false, nil
		}
		var s string
		if err := json.Unmarshal(r, &s); err != nil {
			return nil, false, err
		}
		if s == "" {
			return nil, false, nil
		}
		n, ok2 := new(big.Int).SetString(s, 10)
		if !ok2 {
			return nil, false, fmt.Errorf("bad number %q", s)
		}
		return n, true, nil
	}
	type ifld struct {
		k string
		p *int64
	}
	var u1, u2, u3 int64 = int64(out.MinTrxGas), int64(out.MaxTrxGas), int64(out.MaxBlockGas)
	for _, f := range []ifld{{"version", &out.Version}, {"maxValidatorCnt", &out.MaxValidatorCnt}, {"lazyRewardBlocks", &out.LazyRewardBlocks},
		{"lazyApplyingBlocks", &out.LazyApplyingBlocks}, {"minTrxGas", &u1}, {"maxTrxGas", &u2}, {"maxBlockGas", &u3},
		{"minVotingPeriodBlocks", &out.MinVotingPeriodBlocks}, {"maxVotingPeriodBlocks", &out.MaxVotingPeriodBlocks},
		{"minSelfStakeRatio", &out.MinSelfStakeRatio}, {"maxUpdatableStakeRatio", &out.MaxUpdatableStakeRatio},
		{"maxIndividualStakeRatio", &out.MaxIndividualStakeRatio}, {"slashRatio", &out.SlashRatio},
		{"signedBlocksWindow", &out.SignedBlocksWindow}, {"minSignedBlocks", &out.MinSignedBlocks}} {
		v, ok, err := geti(f.k)
		if err != nil {
			return cur, err
		}
		if ok && v != 0 { // a zero value means "not set" in an option document
			*f.p = v
		}
	}
	out.MinTrxGas, out.MaxTrxGas, out.MaxBlockGas = uint64(u1), uint64(u2), uint64(u3)
	type bfld struct {
		k string
		p **big.Int
	}
	for _, f := range []bfld{{"minValidatorStake", &out.MinValidatorStake}, {"minDelegatorStake", &out.MinDelegatorStake},
		{"rewardPerPower", &out.RewardPerPower}, {"gasPrice", &out.GasPrice}} {
		v, ok, err := getb(f.k)
		if err != nil {
			return cur, err
		}
		if ok && v.Sign() != 0 {
			*f.p = v
		}
	}
	return out, nil
}

var (
	pC02 = []string{"C02"}
	pC03 = []string{"C03"}
	pC04 = []string{"C04"}
	pC12 = []string{"C12"}
	pC13 = []string{"C13"}
	pC15 = []string{"C15"}
	pC16 = []string{"C16"}
	pC17 = []string{"C17"}
)

// applyTx handles one delivered transaction; returns the fee credited to the proposer.
func (w *World) applyTx(h int64, idx int, p *TxPlan, r *abci.ResponseDeliverTx, env *EvmEnv, pre sm.State, gov GovP) *big.Int {
	m := w.M
	zero := new(big.Int)
	w.TxTotal++
	ok := r.Code == 0
	kind := "garbage"
	if p.Tx != nil {
		kind = kindName(p.Tx.Type)
	}
	if ok {
		w.TxOK++
		w.Probes.Hit("tx.ok." + kind)
	} else {
		w.Probes.Hit("tx.fail." + kind)
	}
	w.ShapeParts = append(w.ShapeParts, fmt.Sprintf("%s%d", kind[:2], b2i(ok)))
	if p.Garbage || p.Tx == nil {
		if p.Garbage {
			w.Probes.Hit("garbage.in-block")
		}
		if ok {
			w.violate("tx.garbage-accepted", []string{"C03", "C09"}, h, "tx %d: undecodable/unsigned bytes succeeded", idx)
		}
		return zero
	}
	tx := p.Tx
	from, to := ToAddr(tx.From), ToAddr(tx.To)
	amt := tx.Amount.ToBig()
	price := tx.GasPrice.ToBig()
	gasLimit := new(big.Int).SetUint64(tx.Gas)
	maxFee := new(big.Int).Mul(price, gasLimit)
	hashHex := hex.EncodeToString(p.Hash)
	isEVM := tx.Type == trxContract || (tx.Type == trxTransfer && (m.IsContract(to) || m.Deployed[to]))

	if p.Tampered {
		w.Probes.Hit("tamper." + mutName(p))
		// would it have executed without the signature check?
		if m.Nonce(from) == tx.Nonce && price.Cmp(gov.GasPrice) == 0 && m.Balance(from).Cmp(new(big.Int).Add(amt, maxFee)) >= 0 {
			w.Probes.Hit("tamper.otherwise-executable")
		}
	}
	if p.SigMalleated {
		w.Probes.Hit("tamper.sig-malleated")
	}
	if p.InertMut {
		w.Probes.Hit("tamper.inert-bytes")
	}
	if p.Tampered && !ok {
		w.tamperedAt[h] = true
	}
	if _, seen := m.Executed[hashHex]; seen && !ok {
		w.duplicateAt[h] = true // a re-submission of a signed tx that already took effect
	}

	if !ok && tx.Type == trxVoting && !p.Tampered && p.ReplayOf < 0 {
		w.checkVoteShouldCount(h, idx, p, r, gov)
	}
	if !ok {
		// C17: a contract transaction that satisfies every native precondition and succeeds on the
		// reference EVM must not fail
		if isEVM && !p.Tampered && w.Tr.Cfg.EVM && p.ReplayOf < 0 && p.Intent.Mut == nil {
			w.checkEvmShouldFail(h, idx, p, r, env, gov)
		}
		return zero
	}

	// ---------------- success: preconditions that some property declares necessary ------------
	if p.Tampered {
		tp := pC03
		if tx.Type == trxUnstaking {
			tp = []string{"C03", "C12"} // a release its owner did not sign
		}
		if tx.Type == trxProposal || tx.Type == trxVoting {
			tp = []string{"C03", "C15"} // a proposal or vote no validator signed in that form
		}
		if p.ReplayOf >= 0 {
			tp = append(append([]string(nil), tp...), "C04") // an earlier tx took effect a second time under a rewritten nonce
		}
		w.violate("tx.tampered-accepted", tp, h, "tx %d (%s): altered after signing (%s) yet succeeded", idx, kind, mutName(p))
		// the model cannot follow an execution that must not exist
		w.Fatal = true
		return zero
	}
	if sig, valid := verifySig(tx, m.ChainID); !valid {
		w.violate("tx.badsig-accepted", pC03, h, "tx %d (%s): signature does not verify for sender (%s) yet succeeded", idx, kind, sig)
		w.Fatal = true
		return zero
	}
	if tx.Nonce != m.Nonce(from) {
		w.violate("tx.nonce", pC04, h, "tx %d (%s) succeeded with nonce %d, sender's nonce is %d", idx, kind, tx.Nonce, m.Nonce(from))
	}
	if hPrev, seen := m.Executed[hashHex]; seen {
		w.violate("tx.twice", pC04, h, "tx %d (%s): the same signed transaction already succeeded at height %d", idx, kind, hPrev)
	}
	m.Executed[hashHex] = h
	if price.Cmp(gov.GasPrice) != 0 {
		w.violate("tx.gasprice", pC16, h, "tx %d (%s) succeeded with gas price %s, governance price is %s", idx, kind, price, gov.GasPrice)
	}
	minFee := new(big.Int).Mul(gov.GasPrice, new(big.Int).SetUint64(gov.MinTrxGas))
	if maxFee.Cmp(minFee) < 0 {
		w.violate("tx.minfee", pC16, h, "tx %d (%s) succeeded with gas*price %s below the minimum fee %s", idx, kind, maxFee, minFee)
	}
	if amt.Cmp(two255) >= 0 {
		w.violate("tx.hugeamount", pC02, h, "tx %d (%s) succeeded with amount >= 2^255", idx, kind)
	}
	if uint64(r.GasWanted) != tx.Gas {
		w.violate("tx.gaswanted", pC16, h, "tx %d (%s): GasWanted %d != gas limit %d", idx, kind, r.GasWanted, tx.Gas)
	}

	if isEVM {
		return w.applyEvmTx(h, idx, p, r, env, gov)
	}

	// ---------------- native transaction -----------------------------------------------------
	if uint64(r.GasUsed) != tx.Gas {
		w.violate("tx.gasused", pC16, h, "tx %d (%s): GasUsed %d != gas limit %d", idx, kind, r.GasUsed, tx.Gas)
	}
	fee := new(big.Int).Mul(gov.GasPrice, gasLimit) // the fee the statement prescribes
	bal := m.Balance(from)
	need := new(big.Int).Add(fee, amt)
	if tx.Type == trxWithdraw || tx.Type == trxUnstaking || tx.Type == trxProposal || tx.Type == trxVoting || tx.Type == trxSetDoc {
		need = new(big.Int).Set(fee)
	}
	if bal.Cmp(need) < 0 {
		w.violate("tx.funds", []string{"C02", "C16"}, h, "tx %d (%s) succeeded although balance %s < amount+fee %s", idx, kind, bal, need)
		w.Fatal = true
		return zero
	}
	m.Known[from] = true
	switch tx.Type {
	case trxTransfer:
		m.SubBalance(from, new(big.Int).Add(amt, fee))
		m.AddBalance(to, amt)
		if amt.Sign() == 0 {
			m.Known[to] = true
		}
	case trxStaking:
		q, rem := new(big.Int).QuoRem(amt, big1e18, new(big.Int))
		if rem.Sign() != 0 || q.Sign() <= 0 || !q.IsInt64() {
			w.violate("stake.granularity", []string{"C02", "C11"}, h, "tx %d: staking of %s (not a positive multiple of 10^18) succeeded", idx, amt)
			w.Fatal = true
			return zero
		}
		d := m.Delegs[to]
		if d == nil {
			if from != to {
				w.violate("stake.nodelegatee", []string{"C11"}, h, "tx %d: delegation to %s succeeded but it is not a delegatee", idx, to.Hex())
				w.Fatal = true
				return zero
			}
			act := w.ByAddr[from]
			var pk []byte
			if act != nil {
				pk = act.PubKey
			}
			d = &MDeleg{Addr: to, PubKey: pk}
			m.Delegs[to] = d
			w.Probes.Hit("stake.new-delegatee")
			if w.deletedThisBlock[to] {
				w.Probes.Hit("stake.delegatee-recreated-same-block")
			}
		}
		st := &MStake{ID: hashHex, Owner: from, To: to, Power: q.Int64(), Seq: m.StakeSeq}
		m.StakeSeq++
		m.AllStakes = append(m.AllStakes, st)
		d.Stakes = append(d.Stakes, st)
		m.SubBalance(from, new(big.Int).Add(amt, fee))
		if h <= 3 {
			w.BootstrapDirty = true
		}
		if from != to {
			w.Probes.Hit("stake.delegation")
		}
	case trxUnstaking:
		pl, _ := tx.Payload.(*rtypes.TrxPayloadUnstaking)
		var id string
		if pl != nil {
			id = hex.EncodeToString(pl.TxHash)
		}
		d := m.Delegs[to]
		var st *MStake
		if d != nil {
			for _, s := range d.Stakes {
				if s.ID == id {
					st = s
					break
				}
			}
		}
		if st == nil {
			w.violate("unstake.nostake", []string{"C12", "C11"}, h, "tx %d: unstaking of %s under %s succeeded but no such bonded stake exists", idx, short(id), to.Hex())
			w.Fatal = true
			return zero
		}
		if st.Owner != from {
			w.violate("unstake.notowner", pC12, h, "tx %d: stake %s of %s released by %s", idx, short(id), st.Owner.Hex(), from.Hex())
		}
		m.SubBalance(from, fee)
		m.releaseStake(d, st, h, gov.LazyRewardBlocks)
		if d.Self() == 0 && len(d.Stakes) > 0 {
			// the validator withdrew its own stake: everything still bonded to it is force-released
			w.Probes.Add("unstake.forced", len(d.Stakes))
			for _, s := range append([]*MStake(nil), d.Stakes...) {
				m.releaseStake(d, s, h, gov.LazyRewardBlocks)
			}
		}
		if d.Total() == 0 {
			delete(m.Delegs, to)
			w.deletedThisBlock[to] = true
			w.Probes.Hit("stake.delegatee-deleted")
		}
		if h <= 3 {
			w.BootstrapDirty = true
		}
	case trxWithdraw:
		pl, _ := tx.Payload.(*rtypes.TrxPayloadWithdraw)
		req := new(big.Int)
		if pl != nil && pl.ReqAmt != nil {
			req = pl.ReqAmt.ToBig()
		}
		claim := m.Claim(from)
		if req.Cmp(claim) > 0 {
			w.violate("withdraw.excess", pC13, h, "tx %d: withdrawal of %s succeeded, withdrawable is %s", idx, req, claim)
			w.Fatal = true
			return zero
		}
		if req.Cmp(claim) == 0 && req.Sign() > 0 {
			w.Probes.Hit("withdraw.exact")
		}
		m.SubBalance(from, fee)
		m.AddBalance(from, req)
		if _, okc := m.Claims[from]; !okc {
			m.Claims[from] = new(big.Int)
		}
		m.Claims[from].Sub(m.Claims[from], req)
		m.Withdrawn.Add(m.Withdrawn, req)
	case trxProposal:
		pl, _ := tx.Payload.(*rtypes.TrxPayloadProposal)
		if pl == nil {
			w.violate("proposal.nopayload", pC15, h, "tx %d: proposal without payload succeeded", idx)
			w.Fatal = true
			return zero
		}
		if !inValSets(pre, from) {
			w.violate("proposal.notvalidator", pC15, h, "tx %d: proposal by %s succeeded but it is not a validator", idx, from.Hex())
		}
		end := pl.StartVotingHeight + pl.VotingPeriodBlocks
		if pl.StartVotingHeight <= h || pl.VotingPeriodBlocks < gov.MinVotingPeriodBlocks || pl.VotingPeriodBlocks > gov.MaxVotingPeriodBlocks ||
			pl.ApplyingHeight < end+gov.LazyApplyingBlocks || end < pl.StartVotingHeight {
			w.violate("proposal.heights", pC15, h, "tx %d: proposal start=%d period=%d apply=%d at height %d violates the limits in force", idx, pl.StartVotingHeight, pl.VotingPeriodBlocks, pl.ApplyingHeight, h)
		}
		mp := &MProp{ID: hashHex, Start: pl.StartVotingHeight, End: end, Apply: pl.ApplyingHeight, OptType: pl.OptType, Options: pl.Options,
			Voters: map[Addr]*MVoter{}, Major: -1}
		// voters: the validator set last reported to the consensus engine (read from the engine)
		for _, v := range pre.NextValidators.Validators {
			mp.Voters[ToAddr(v.Address)] = &MVoter{Power: v.VotingPower, Choice: -1}
			mp.Total += v.VotingPower
		}
		m.Props[hashHex] = mp
		m.PropOrder = append(m.PropOrder, hashHex)
		m.SubBalance(from, fee)
	case trxVoting:
		pl, _ := tx.Payload.(*rtypes.TrxPayloadVoting)
		var id string
		if pl != nil {
			id = hex.EncodeToString(pl.TxHash)
		}
		mp := m.Props[id]
		if mp == nil {
			w.violate("vote.noproposal", pC15, h, "tx %d: vote on unknown/closed proposal %s succeeded", idx, short(id))
			w.Fatal = true
			return zero
		}
		vt := mp.Voters[from]
		if vt == nil {
			w.violate("vote.outsider", pC15, h, "tx %d: vote by %s succeeded but it is not among the recorded voters", idx, from.Hex())
			w.Fatal = true
			return zero
		}
		if h < mp.Start || h > mp.End {
			w.violate("vote.window", pC15, h, "tx %d: vote at height %d outside the window [%d,%d] succeeded", idx, h, mp.Start, mp.End)
		}
		if pl.Choice < 0 || int(pl.Choice) >= len(mp.Options) {
			w.violate("vote.choice", pC15, h, "tx %d: vote for option %d of %d succeeded", idx, pl.Choice, len(mp.Options))
			w.Fatal = true
			return zero
		}
		if vt.Choice >= 0 {
			w.Probes.Hit("vote.revote")
		}
		if h == mp.Start || h == mp.End {
			w.Probes.Hit("vote.window-edge")
		}
		vt.Choice = pl.Choice
		m.SubBalance(from, fee)
	case trxSetDoc:
		pl, _ := tx.Payload.(*rtypes.TrxPayloadSetDoc)
		if pl != nil {
			m.Meta[from] = MMeta{Name: pl.Name, Doc: pl.URL}
		}
		m.SubBalance(from, fee)
	default:
		w.violate("tx.unknowntype", []string{"C09"}, h, "tx %d: type %d succeeded", idx, tx.Type)
		return zero
	}
	m.W.SetNonce(common.Address(from), m.Nonce(from)+1)
	return fee
}

func (m *Model) releaseStake(d *MDeleg, st *MStake, h, period int64) {
	for i, s := range d.Stakes {
		if s == st {
			d.Stakes = append(d.Stakes[:i:i], d.Stakes[i+1:]...)
			break
		}
	}
	st.Refund = h + period
	m.Frozen = append(m.Frozen, st)
}

func b2i(b bool) int {
	if b {
		return 1
	}
	return 0
}

func short(s string) string {
	if len(s) > 10 {
		return s[:10]
	}
	return s
}

func mutName(p *TxPlan) string {
	if p.Intent.WrongChain {
		return "chain-id"
	}
	if p.Intent.EmptyChain {
		return "chain-id.empty"
	}
	if p.Intent.Mut != nil {
		return p.Intent.Mut.Field + "." + p.Intent.Mut.How
	}
	return "none"
}

func verifySig(tx *rtypes.Trx, chainID string) (string, bool) {
	addr, _, xerr := rtypes.VerifyTrxRLP(tx, chainID)
	if xerr != nil {
		return xerr.Error(), false
	}
	return hex.EncodeToString(addr), bytes.Equal(addr, tx.From)
}

// ---- EVM ------------------------------------------------------------------------------------

func (w *World) evmArgs(p *TxPlan) (from Addr, to *Addr, data []byte) {
	tx := p.Tx
	from = ToAddr(tx.From)
	t := ToAddr(tx.To)
	if t != (Addr{}) {
		to = &t
	}
	if pl, ok := tx.Payload.(*rtypes.TrxPayloadContract); ok && pl != nil {
		data = pl.Data
	}
	return
}

func (w *World) applyEvmTx(h int64, idx int, p *TxPlan, r *abci.ResponseDeliverTx, env *EvmEnv, gov GovP) *big.Int {
	m := w.M
	tx := p.Tx
	from, to, data := w.evmArgs(p)
	ref := RefExec(m.W, env, common.BytesToHash(p.Hash), idx, from, to, tx.Nonce, tx.Gas, gov.GasPrice, tx.Amount.ToBig(), data)
	if ref.Failed {
		why := ref.VMErr
		if ref.Err != nil {
			why = ref.Err.Error()
		}
		v := w.violate("evm.outcome", pC17, h, "tx %d: node reports success, reference EVM fails (%s)", idx, why)
		if to != nil && m.Inner[*to] && tx.Type == trxTransfer {
			v.Shape = "inner-created-contract-plain-transfer"
		}
		w.Fatal = true
		return new(big.Int)
	}
	if uint64(r.GasUsed) != ref.GasUsed {
		v := w.violate("evm.gasused", []string{"C17", "C16"}, h, "tx %d: GasUsed %d, reference %d", idx, r.GasUsed, ref.GasUsed)
		if to != nil && m.Inner[*to] && tx.Type == trxTransfer {
			v.Shape = "inner-created-contract-plain-transfer"
		}
	}
	if uint64(r.GasUsed) > tx.Gas {
		w.violate("evm.gas-above-limit", pC16, h, "tx %d: GasUsed %d above the limit %d", idx, r.GasUsed, tx.Gas)
	}
	if to == nil {
		created := ethcrypto.CreateAddress(common.Address(from), tx.Nonce)
		if !bytes.Equal(r.Data, created[:]) {
			w.violate("evm.created", pC17, h, "tx %d: deployment returned %x, reference address %x", idx, r.Data, created[:])
		}
		m.Contracts = append(m.Contracts, Addr(created))
		m.Known[Addr(created)] = true
		m.Deployed[Addr(created)] = true
		w.Probes.Hit("evm.deploy")
	} else {
		if !bytes.Equal(r.Data, ref.Ret) {
			w.violate("evm.returndata", pC17, h, "tx %d: return data %x, reference %x", idx, r.Data, ref.Ret)
		}
		if tx.Type == trxTransfer {
			w.Probes.Hit("evm.transfer-to-contract")
		} else {
			w.Probes.Hit("evm.call")
		}
	}
	w.compareLogs(h, idx, r, ref)
	if os.Getenv("VERIF_DEBUG") != "" {
		for k := 0; k+32 <= len(data) && k < 6*32; k += 32 {
			a := ToAddr(data[k+12 : k+32])
			w.logf("D h=%d tx=%d word%d %s bal=%s nonce=%d code=%d suicided=%v", h, idx, k/32, a.Hex(), m.W.GetBalance(common.Address(a)), m.W.GetNonce(common.Address(a)), len(m.W.GetCode(common.Address(a))), m.Destroyed[a])
		}
		if to != nil {
			w.logf("D h=%d tx=%d callee %s bal=%s nonce=%d code=%d destructed=%v", h, idx, to.Hex(), m.W.GetBalance(common.Address(*to)), m.W.GetNonce(common.Address(*to)), len(m.W.GetCode(common.Address(*to))), ref.Destructed)
		}
	}
	w.noteEvmAccounts(ref)
	if to == nil {
		w.logf("E h=%d tx=%d deploy by %s -> %x gas=%d", h, idx, from.Hex(), r.Data, ref.GasUsed)
	} else {
		w.logf("E h=%d tx=%d call %s -> %s gas=%d ret=%x", h, idx, from.Hex(), to.Hex(), ref.GasUsed, shortHash(ref.Ret))
	}
	return new(big.Int).Mul(gov.GasPrice, new(big.Int).SetUint64(ref.GasUsed))
}

// noteEvmAccounts records what the reference execution created and destroyed.
func (w *World) noteEvmAccounts(ref *EvmResult) {
	m := w.M
	for _, l := range ref.Logs {
		m.Known[Addr(l.Address)] = true
	}
	for i, a := range ref.Created {
		m.Known[Addr(a)] = true
		if !(ref.IsCreate && i == 0) && len(m.W.GetCode(a)) > 0 {
			if !m.Inner[Addr(a)] {
				m.InnerList = append(m.InnerList, Addr(a))
			}
			m.Inner[Addr(a)] = true
			w.Probes.Hit("evm.inner-create")
		}
	}
	for _, d := range ref.Destructed {
		m.Destroyed[Addr(d.Addr)] = true
		w.Probes.Hit("evm.selfdestruct")
		if w.Tr.Cfg.AvoidKnown {
			// listed finding (known_findings.json, C17 selfdestruct-native-residue): the node copies the
			// destroyed contract's nonce and balance to the native ledger before the EVM deletes the
			// account and feeds them back into the EVM on the next access. Random exploration mirrors
			// exactly this so that worlds can continue past a self-destruct; the witness traces are
			// replayed without the mirror.
			m.W.SetNonce(d.Addr, d.Nonce)
			if d.Balance != nil && d.Balance.Sign() > 0 {
				m.W.SetBalance(d.Addr, d.Balance)
				w.Probes.Hit("evm.value-sent-to-destroyed-contract")
			}
		}
	}
}

func (w *World) compareLogs(h int64, idx int, r *abci.ResponseDeliverTx, ref *EvmResult) {
	// the node exposes logs as attributes of the "evm" event: contract, topic.N, data, removed
	var got []string
	for _, ev := range r.Events {
		if ev.Type != "evm" {
			continue
		}
		for _, a := range ev.Attributes {
			k := string(a.Key)
			if k == "contractAddress" || k == "removed" {
				continue
			}
			got = append(got, k+"="+stringsLower(string(a.Value)))
		}
	}
	var want []string
	for _, l := range ref.Logs {
		want = append(want, "contract="+hex.EncodeToString(l.Address[:]))
		for i, t := range l.Topics {
			want = append(want, fmt.Sprintf("topic.%d=%s", i, hex.EncodeToString(t[:])))
		}
		if len(l.Data) > 0 {
			want = append(want, "data="+hex.EncodeToString(l.Data))
		}
	}
	if len(ref.Logs) > 0 {
		w.Probes.Hit("evm.logs")
	}
	if fmt.Sprint(got) != fmt.Sprint(want) {
		w.violate("evm.logs", pC17, h, "tx %d: logs %v, reference %v", idx, got, want)
	}
}

func stringsLower(s string) string {
	b := []byte(s)
	for i, c := range b {
		if c >= 'A' && c <= 'F' {
			b[i] = c + 32
		}
	}
	return string(b)
}

// checkEvmShouldFail: the node rejected a contract transaction; if every native precondition
// holds and the reference EVM executes it successfully, the outcomes differ (C17).
func (w *World) checkEvmShouldFail(h int64, idx int, p *TxPlan, r *abci.ResponseDeliverTx, env *EvmEnv, gov GovP) {
	m := w.M
	tx := p.Tx
	from, to, data := w.evmArgs(p)
	price := tx.GasPrice.ToBig()
	if _, valid := verifySig(tx, m.ChainID); !valid {
		return
	}
	if len(tx.To) != 20 || len(tx.From) != 20 {
		return // malformed address fields are rejected before anything runs
	}
	if tx.Nonce != m.Nonce(from) || price.Cmp(gov.GasPrice) != 0 || tx.Amount.ToBig().Cmp(two255) >= 0 || tx.Gas > 24_000_000 {
		return
	}
	minFee := new(big.Int).Mul(gov.GasPrice, new(big.Int).SetUint64(gov.MinTrxGas))
	maxFee := new(big.Int).Mul(price, new(big.Int).SetUint64(tx.Gas))
	if maxFee.Cmp(minFee) < 0 || m.Balance(from).Cmp(new(big.Int).Add(maxFee, tx.Amount.ToBig())) < 0 {
		return
	}
	// run on a copy of W so that nothing sticks
	cp := m.W.Copy()
	gp := *env.GasPool
	envc := &EvmEnv{Height: env.Height, Time: env.Time, Proposer: env.Proposer, GasPool: &gp}
	ref := RefExec(cp, envc, common.BytesToHash(p.Hash), idx, from, to, tx.Nonce, tx.Gas, gov.GasPrice, tx.Amount.ToBig(), data)
	if ref.Failed {
		w.Probes.Hit("evm.fail-agreed")
		// a failed execution still draws on the block's gas pool (what it used stays consumed), so later
		// contract transactions of the block see the smaller pool in the reference as they do in the node
		*env.GasPool = gp
		if ref.VMErr != "" {
			w.Probes.Hit("evm.revert-or-oog")
			if !bytes.Equal(r.Data, ref.Ret) && len(ref.Ret) > 0 {
				w.violate("evm.revertdata", pC17, h, "tx %d: failed call returned %x, reference %x", idx, r.Data, ref.Ret)
			}
		}
		return
	}
	w.violate("evm.outcome", pC17, h, "tx %d: node fails (code %d: %s), reference EVM succeeds", idx, r.Code, r.Log)
}

func sortInt64(a []int64) { sort.Slice(a, func(i, j int) bool { return a[i] < a[j] }) }

// checkVoteShouldCount: the recorded validators vote, each counted once, the latest replacing earlier
// ones: a vote by a recorded voter, inside the window, for an existing option, that satisfies the
// common admission rules (signature, nonce, price, minimum fee, funds) must be counted.
func (w *World) checkVoteShouldCount(h int64, idx int, p *TxPlan, r *abci.ResponseDeliverTx, gov GovP) {
	m := w.M
	tx := p.Tx
	from := ToAddr(tx.From)
	pl, _ := tx.Payload.(*rtypes.TrxPayloadVoting)
	if pl == nil || ToAddr(tx.To) != (Addr{}) {
		return
	}
	mp := m.Props[hex.EncodeToString(pl.TxHash)]
	if mp == nil || h < mp.Start || h > mp.End || pl.Choice < 0 || int(pl.Choice) >= len(mp.Options) {
		return
	}
	vt := mp.Voters[from]
	if vt == nil || vt.Power <= 0 {
		return
	}
	if _, valid := verifySig(tx, m.ChainID); !valid {
		return
	}
	price := tx.GasPrice.ToBig()
	fee := new(big.Int).Mul(price, new(big.Int).SetUint64(tx.Gas))
	minFee := new(big.Int).Mul(gov.GasPrice, new(big.Int).SetUint64(gov.MinTrxGas))
	if tx.Nonce != m.Nonce(from) || price.Cmp(gov.GasPrice) != 0 || fee.Cmp(minFee) < 0 || m.Balance(from).Cmp(fee) < 0 || tx.Amount.Sign() != 0 {
		return
	}
	if tx.Gas > 1<<40 {
		return // extreme gas limits are rejected for a reason no property describes
	}
	if _, seen := m.Executed[hex.EncodeToString(p.Hash)]; seen {
		return
	}
	w.violate("vote.rejected-valid", pC15, h, "tx %d: vote of recorded voter %s (power %d) for option %d inside the window [%d,%d] was rejected: code %d %q", idx, from.Hex(), vt.Power, pl.Choice, mp.Start, mp.End, r.Code, r.Log)
}
