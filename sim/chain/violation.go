package chain

import (
	"fmt"
	"sort"
	"strings"
)

// Violation is one oracle finding.
type Violation struct {
	Check  string   `json:"check"` // oracle check id
	Props  []string `json:"props"` // properties this finding is evidence against
	Height int64    `json:"height"`
	Detail string   `json:"detail"`
	Shape  string   `json:"shape,omitempty"` // coarse classification used to match known findings
}

func (v *Violation) String() string {
	return fmt.Sprintf("%s props=%s h=%d %s", v.Check, strings.Join(v.Props, ","), v.Height, v.Detail)
}

func (v *Violation) HasProp(p string) bool {
	for _, x := range v.Props {
		if x == p {
			return true
		}
	}
	return false
}

// Probes count "this rare condition was reached" events and fault firings.
type Probes struct {
	C map[string]int
}

func NewProbes() *Probes { return &Probes{C: map[string]int{}} }
func (p *Probes) Hit(k string) {
	if p != nil {
		p.C[k]++
	}
}
func (p *Probes) Add(k string, n int) {
	if p != nil && n != 0 {
		p.C[k] += n
	}
}
func (p *Probes) Keys() []string {
	ks := make([]string, 0, len(p.C))
	for k := range p.C {
		ks = append(ks, k)
	}
	sort.Strings(ks)
	return ks
}
